// Package vsync stands in for "sync" in the klevdb sources (import rewrite by
// vgen). Each primitive wraps the real one; when the cooperative scheduler is
// active the acquisition is first granted by the scheduler (so it can never
// block) and then performed for real, so the race detector sees exactly the
// program's own happens-before edges.
package vsync

import (
	"sync"
	"unsafe"

	"github.com/klev-dev/klevdb/pkg/vshim/vsched"
)

type Mutex struct {
	mu sync.Mutex
}

func (m *Mutex) Lock() {
	if vsched.Active {
		vsched.MutexLock(unsafe.Pointer(m))
	}
	m.mu.Lock()
}

func (m *Mutex) Unlock() {
	if vsched.Active {
		vsched.MutexUnlock(unsafe.Pointer(m))
	}
	m.mu.Unlock()
}

func (m *Mutex) TryLock() bool {
	if vsched.Active {
		vsched.Visible(vsched.KLock, vsched.Acc{Obj: vsched.Ptr(unsafe.Pointer(m)), W: true})
		if m.mu.TryLock() {
			vsched.MutexLock(unsafe.Pointer(m))
			return true
		}
		return false
	}
	return m.mu.TryLock()
}

type RWMutex struct {
	mu sync.RWMutex
}

func (m *RWMutex) Lock() {
	if vsched.Active {
		vsched.RWLock(unsafe.Pointer(m))
	}
	m.mu.Lock()
}

func (m *RWMutex) Unlock() {
	if vsched.Active {
		vsched.RWUnlock(unsafe.Pointer(m))
	}
	m.mu.Unlock()
}

func (m *RWMutex) RLock() {
	if vsched.Active {
		vsched.RWRLock(unsafe.Pointer(m))
	}
	m.mu.RLock()
}

func (m *RWMutex) RUnlock() {
	if vsched.Active {
		vsched.RWRUnlock(unsafe.Pointer(m))
	}
	m.mu.RUnlock()
}

type Locker = sync.Locker
type WaitGroup = sync.WaitGroup
type Once = sync.Once
type Pool = sync.Pool
type Map = sync.Map
