// Package vsync stands in for "sync" in the klevdb sources (import rewrite by
// vgen). Each primitive wraps the real one; when the cooperative scheduler is
// active the acquisition is first granted by the scheduler (so it can never
// block) and then performed for real, so the race detector sees exactly the
// program's own happens-before edges.
package vsync

import (
	"sync"
	"unsafe"

	"github.com/klev-dev/klevdb/pkg/vshim/vsched"
)

type Mutex struct {
	mu sync.Mutex
}

func (m *Mutex) Lock() {
	if vsched.Active {
		vsched.MutexLock(unsafe.Pointer(m))
		// granted by the model: the real lock must be free. If it is not, a call that
		// has already returned (or panicked) left it held: nobody will ever release it.
		if !m.mu.TryLock() {
			vsched.Stuck("Mutex.Lock of a mutex left locked by a finished call")
		}
		return
	}
	m.mu.Lock()
}

func (m *Mutex) Unlock() {
	if vsched.Active {
		vsched.MutexUnlock(unsafe.Pointer(m))
	}
	m.mu.Unlock()
}

func (m *Mutex) TryLock() bool {
	if vsched.Active {
		vsched.Visible(vsched.KLock, vsched.Acc{Obj: vsched.Ptr(unsafe.Pointer(m)), W: true})
		if m.mu.TryLock() {
			vsched.MutexLock(unsafe.Pointer(m))
			return true
		}
		return false
	}
	return m.mu.TryLock()
}

type RWMutex struct {
	mu sync.RWMutex
}

func (m *RWMutex) Lock() {
	if vsched.Active {
		vsched.RWLock(unsafe.Pointer(m))
		if !m.mu.TryLock() {
			vsched.Stuck("RWMutex.Lock of a mutex left locked by a finished call")
		}
		return
	}
	m.mu.Lock()
}

func (m *RWMutex) Unlock() {
	if vsched.Active {
		vsched.RWUnlock(unsafe.Pointer(m))
	}
	m.mu.Unlock()
}

func (m *RWMutex) RLock() {
	if vsched.Active {
		vsched.RWRLock(unsafe.Pointer(m))
		if !m.mu.TryRLock() {
			vsched.Stuck("RWMutex.RLock of a mutex left locked by a finished call")
		}
		return
	}
	m.mu.RLock()
}

func (m *RWMutex) RUnlock() {
	if vsched.Active {
		vsched.RWRUnlock(unsafe.Pointer(m))
	}
	m.mu.RUnlock()
}

type Locker = sync.Locker
type WaitGroup = sync.WaitGroup
type Once = sync.Once
type Pool = sync.Pool
type Map = sync.Map
