// Package vtime stands in for "time": all types are aliases of the real ones;
// Now/Since/Until/After run on a logical clock that moves only when the
// harness ticks it (Real=true switches back to the wall clock).
package vtime

import "time"

type Time = time.Time
type Duration = time.Duration
type Month = time.Month
type Location = time.Location

const (
	Nanosecond  = time.Nanosecond
	Microsecond = time.Microsecond
	Millisecond = time.Millisecond
	Second      = time.Second
	Minute      = time.Minute
	Hour        = time.Hour
)

var UTC = time.UTC

// Real selects the wall clock (free-running cross-checks, repository tests).
var Real = true

var clock = time.Date(2030, 1, 1, 0, 0, 0, 0, time.UTC)

// SetClock sets the logical clock and switches to it.
func SetClock(t time.Time) { clock = t; Real = false }

// Tick advances the logical clock.
func Tick(d time.Duration) { clock = clock.Add(d) }

func Clock() time.Time { return clock }

func Now() time.Time {
	if Real {
		return time.Now()
	}
	return clock
}

func Since(t time.Time) time.Duration {
	if Real {
		return time.Since(t)
	}
	return clock.Sub(t)
}

func Until(t time.Time) time.Duration {
	if Real {
		return time.Until(t)
	}
	return t.Sub(clock)
}

func After(d time.Duration) <-chan time.Time {
	if Real {
		return time.After(d)
	}
	ch := make(chan time.Time, 1)
	ch <- clock.Add(d)
	return ch
}

func Sleep(d time.Duration) {
	if Real {
		time.Sleep(d)
	}
}

var (
	Date      = time.Date
	Unix      = time.Unix
	UnixMicro = time.UnixMicro
	UnixMilli = time.UnixMilli
)
