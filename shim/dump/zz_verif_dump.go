//go:build verif

package klevdb

import (
	"fmt"
	"hash/fnv"
	"strings"

	"github.com/klev-dev/klevdb/pkg/index"
)

// VerifState renders the in-memory fields of a log handle that can influence
// its future behaviour; it is used only to canonicalise explored states.
// (Added by the verification overlay; not part of the repository.)
func VerifState(l Log) string {
	if bl, ok := l.(*blockingLog); ok {
		return "blocking{" + VerifState(bl.Log) + "}"
	}
	lg, ok := l.(*log)
	if !ok {
		return fmt.Sprintf("%T", l)
	}
	var b strings.Builder
	fmt.Fprintf(&b, "ro=%v n=%d;", lg.opts.Readonly, len(lg.readers))
	for _, r := range lg.readers {
		fmt.Fprintf(&b, "[o=%d h=%v m=%v u=%d a=%d v=%v ", r.segment.Offset, r.head, r.messages != nil, r.messagesInuse.Load(), r.indexLastAccess.Load(), r.version)
		switch ix := r.index.(type) {
		case nil:
			b.WriteString("ix=nil")
		case *readerIndex:
			fmt.Fprintf(&b, "rix len=%d next=%d head=%v keys=%v h=%x", len(ix.items), ix.nextOffset, ix.head, ix.keys != nil, hashItems(ix.items))
		case *writerIndex:
			fmt.Fprintf(&b, "wix len=%d next=%d time=%d keys=%v h=%x", len(ix.items), ix.nextOffset.Load(), ix.nextTime.Load(), ix.keys != nil, hashItems(ix.items))
		default:
			fmt.Fprintf(&b, "ix=%T", ix)
		}
		b.WriteString("]")
	}
	if w := lg.writer; w != nil {
		fmt.Fprintf(&b, "W[o=%d msz=%d isz=%d mv=%v v=%v same=%v]", w.segment.Offset, w.messages.Size(), w.items.Size(), w.messages.Version(), w.version, len(lg.readers) > 0 && w.reader == lg.readers[len(lg.readers)-1])
	}
	return b.String()
}

func hashItems(items []index.Item) uint64 {
	h := fnv.New64a()
	for _, it := range items {
		fmt.Fprintf(h, "%d,%d,%d,%d;", it.Offset, it.Position, it.Timestamp, it.KeyHash)
	}
	return h.Sum64()
}
