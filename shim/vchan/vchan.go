// Package vchan provides scheduler-visible channels. vgen rewrites the
// channel constructs of pkg/notify mechanically onto it:
//
//	make(chan T, n)            -> vchan.Make[T](n)
//	chan T (as a type)         -> *vchan.Chan[T]
//	c <- v                     -> c.Send(v)
//	<-c  /  v, ok := <-c       -> c.Recv() / c.Recv2()
//	close(c)                   -> c.Close()
//	select { case <-a: ...; case <-x.Done(): ... } -> switch vchan.Select(vchan.RecvOf(a), vchan.Real(x.Done())) { case 0: ...; case 1: ... }
//
// Every operation is performed on a real channel underneath; when the
// cooperative scheduler is active it is first granted by the scheduler (so it
// never blocks) and only then performed.
package vchan

import (
	"reflect"
	"unsafe"

	"github.com/klev-dev/klevdb/pkg/vshim/vsched"
)

type Chan[T any] struct {
	ch     chan T
	closed bool
}

func Make[T any](n int) *Chan[T] {
	return &Chan[T]{ch: make(chan T, n)}
}

func (c *Chan[T]) id() uint64 { return vsched.Ptr(unsafe.Pointer(c)) }

// ensure seeds the scheduler's model of the channel the first time an
// execution touches it. (The closed flag only matters for channels closed
// before the scheduler started; it is shim state, invisible to the detector.)
//
//go:norace
func (c *Chan[T]) ensure() uint64 {
	id := c.id()
	vsched.ChanEnsure(id, len(c.ch), cap(c.ch), c.closed)
	return id
}

//go:norace
func (c *Chan[T]) markClosed() { c.closed = true }

func (c *Chan[T]) Send(v T) {
	if vsched.Active {
		vsched.ChanSend(c.ensure())
	}
	c.ch <- v
}

func (c *Chan[T]) Recv() T {
	if vsched.Active {
		vsched.ChanRecv(c.ensure())
	}
	return <-c.ch
}

func (c *Chan[T]) Recv2() (T, bool) {
	if vsched.Active {
		vsched.ChanRecv(c.ensure())
	}
	v, ok := <-c.ch
	return v, ok
}

func (c *Chan[T]) Close() {
	if vsched.Active {
		vsched.ChanClose(c.ensure())
	}
	c.markClosed()
	close(c.ch)
}

// Case is one receive case of a select.
type Case struct {
	id   uint64
	real <-chan struct{}
	rv   reflect.Value
	recv func()
	set  func(v reflect.Value, ok bool) // free-running path: the value reflect.Select received
	sync func()
}

// Slot holds what an assignment case ("case v, ok = <-c") received.
type Slot[T any] struct {
	V  T
	Ok bool
	c  *Chan[T]
}

func SlotOf[T any](c *Chan[T]) *Slot[T] { return &Slot[T]{c: c} }

// Case is "case s.V, s.Ok = <-c".
func (s *Slot[T]) Case() Case {
	c := s.c
	return Case{id: c.id(), rv: reflect.ValueOf(c.ch),
		recv: func() { s.V, s.Ok = <-c.ch },
		set: func(v reflect.Value, ok bool) {
			var z T
			s.V, s.Ok = z, ok
			if ok {
				s.V = v.Interface().(T)
			}
		},
		sync: func() { c.ensure() }}
}

// RecvOf is "case <-c" on a modelled channel.
func RecvOf[T any](c *Chan[T]) Case {
	return Case{id: c.id(), rv: reflect.ValueOf(c.ch), recv: func() { <-c.ch }, sync: func() { c.ensure() }}
}

// Real is "case <-ch" on a real Done-like channel (one that is only ever closed).
func Real(ch <-chan struct{}) Case {
	return Case{real: ch, rv: reflect.ValueOf(ch)}
}

// Select blocks until one case is ready and returns its index.
func Select(cases ...Case) int { return sel(false, cases) }

// SelectDefault is a select with a default clause: -1 when no case is ready.
func SelectDefault(cases ...Case) int { return sel(true, cases) }

func sel(dflt bool, cases []Case) int {
	if vsched.Active {
		ids := make([]uint64, len(cases))
		reals := make([]<-chan struct{}, len(cases))
		for i, c := range cases {
			ids[i] = c.id
			reals[i] = c.real
			if c.sync != nil {
				c.sync()
			}
		}
		var i int
		if dflt {
			i = vsched.TrySelect(ids, reals)
		} else {
			i = vsched.Select(ids, reals)
		}
		if i >= 0 && cases[i].recv != nil {
			cases[i].recv()
		}
		return i
	}
	sc := make([]reflect.SelectCase, len(cases), len(cases)+1)
	for i, c := range cases {
		sc[i] = reflect.SelectCase{Dir: reflect.SelectRecv, Chan: c.rv}
	}
	if dflt {
		sc = append(sc, reflect.SelectCase{Dir: reflect.SelectDefault})
	}
	i, v, ok := reflect.Select(sc)
	if i == len(cases) {
		return -1
	}
	if cases[i].set != nil {
		cases[i].set(v, ok)
	}
	return i
}
