// Package vatomic stands in for "sync/atomic": real atomics, each operation a
// scheduling point while the cooperative scheduler is active.
package vatomic

import (
	"sync/atomic"
	"unsafe"

	"github.com/klev-dev/klevdb/pkg/vshim/vsched"
)

type Int64 struct {
	v atomic.Int64
}

func (x *Int64) Load() int64 {
	if vsched.Active {
		vsched.Visible(vsched.KLoad, vsched.Acc{Obj: vsched.Ptr(unsafe.Pointer(x))})
	}
	return x.v.Load()
}

func (x *Int64) Store(v int64) {
	if vsched.Active {
		vsched.Visible(vsched.KStore, vsched.Acc{Obj: vsched.Ptr(unsafe.Pointer(x)), W: true})
	}
	x.v.Store(v)
}

func (x *Int64) Add(d int64) int64 {
	if vsched.Active {
		vsched.Visible(vsched.KStore, vsched.Acc{Obj: vsched.Ptr(unsafe.Pointer(x)), W: true})
	}
	return x.v.Add(d)
}

func (x *Int64) Swap(v int64) int64 {
	if vsched.Active {
		vsched.Visible(vsched.KStore, vsched.Acc{Obj: vsched.Ptr(unsafe.Pointer(x)), W: true})
	}
	return x.v.Swap(v)
}

func (x *Int64) CompareAndSwap(o, n int64) bool {
	if vsched.Active {
		vsched.Visible(vsched.KStore, vsched.Acc{Obj: vsched.Ptr(unsafe.Pointer(x)), W: true})
	}
	return x.v.CompareAndSwap(o, n)
}

type Int32 struct {
	v atomic.Int32
}

func (x *Int32) Load() int32 {
	if vsched.Active {
		vsched.Visible(vsched.KLoad, vsched.Acc{Obj: vsched.Ptr(unsafe.Pointer(x))})
	}
	return x.v.Load()
}

func (x *Int32) Store(v int32) {
	if vsched.Active {
		vsched.Visible(vsched.KStore, vsched.Acc{Obj: vsched.Ptr(unsafe.Pointer(x)), W: true})
	}
	x.v.Store(v)
}

func (x *Int32) Add(d int32) int32 {
	if vsched.Active {
		vsched.Visible(vsched.KStore, vsched.Acc{Obj: vsched.Ptr(unsafe.Pointer(x)), W: true})
	}
	return x.v.Add(d)
}

func (x *Int32) CompareAndSwap(o, n int32) bool {
	if vsched.Active {
		vsched.Visible(vsched.KStore, vsched.Acc{Obj: vsched.Ptr(unsafe.Pointer(x)), W: true})
	}
	return x.v.CompareAndSwap(o, n)
}

type Bool struct {
	v atomic.Bool
}

func (x *Bool) Load() bool {
	if vsched.Active {
		vsched.Visible(vsched.KLoad, vsched.Acc{Obj: vsched.Ptr(unsafe.Pointer(x))})
	}
	return x.v.Load()
}

func (x *Bool) Store(v bool) {
	if vsched.Active {
		vsched.Visible(vsched.KStore, vsched.Acc{Obj: vsched.Ptr(unsafe.Pointer(x)), W: true})
	}
	x.v.Store(v)
}

type Uint64 struct {
	v atomic.Uint64
}

func (x *Uint64) Load() uint64 {
	if vsched.Active {
		vsched.Visible(vsched.KLoad, vsched.Acc{Obj: vsched.Ptr(unsafe.Pointer(x))})
	}
	return x.v.Load()
}

func (x *Uint64) Store(v uint64) {
	if vsched.Active {
		vsched.Visible(vsched.KStore, vsched.Acc{Obj: vsched.Ptr(unsafe.Pointer(x)), W: true})
	}
	x.v.Store(v)
}

func (x *Uint64) Add(d uint64) uint64 {
	if vsched.Active {
		vsched.Visible(vsched.KStore, vsched.Acc{Obj: vsched.Ptr(unsafe.Pointer(x)), W: true})
	}
	return x.v.Add(d)
}
