// Package vmmap stands in for golang.org/x/exp/mmap. The mapping itself is
// real; Open, every read through the mapping and Close are scheduling points
// on one object per mapped file (reads commute with each other, Close
// conflicts with them), so that "unmapped while somebody still reads" is a
// schedule the explorer can reach.
package vmmap

import (
	"golang.org/x/exp/mmap"

	"github.com/klev-dev/klevdb/pkg/vshim/vsched"
)

type ReaderAt struct {
	r    *mmap.ReaderAt
	name string
}

func Open(filename string) (*ReaderAt, error) {
	if vsched.Active {
		vsched.Visible(vsched.KFS, vsched.Acc{Obj: vsched.Str("P:" + filename)})
	}
	r, err := mmap.Open(filename)
	if err != nil {
		return nil, err
	}
	return &ReaderAt{r: r, name: filename}, nil
}

func (r *ReaderAt) obj(w bool) vsched.Acc {
	return vsched.Acc{Obj: vsched.Str("M:" + r.name), W: w}
}

func (r *ReaderAt) ReadAt(p []byte, off int64) (int, error) {
	if vsched.Active {
		vsched.Visible(vsched.KFS, r.obj(false))
	}
	return r.r.ReadAt(p, off)
}

func (r *ReaderAt) At(i int) byte {
	if vsched.Active {
		vsched.Visible(vsched.KFS, r.obj(false))
	}
	return r.r.At(i)
}

// Len does not touch the mapped memory.
func (r *ReaderAt) Len() int { return r.r.Len() }

func (r *ReaderAt) Close() error {
	if vsched.Active {
		vsched.Visible(vsched.KFS, r.obj(true))
	}
	return r.r.Close()
}
