// Package vmmap stands in for golang.org/x/exp/mmap: Open is a scheduling
// point (a read of the file's current content), the mapping itself is real.
package vmmap

import (
	"golang.org/x/exp/mmap"

	"github.com/klev-dev/klevdb/pkg/vshim/vsched"
)

type ReaderAt = mmap.ReaderAt

func Open(filename string) (*ReaderAt, error) {
	if vsched.Active {
		vsched.Visible(vsched.KFS, vsched.Acc{Obj: vsched.Str("P:" + filename)})
	}
	return mmap.Open(filename)
}
