// Package vsched is the cooperative scheduler underneath the shims. While
// Active is false (sequential engines, free-running cross-checks) every entry
// point returns immediately and the shims behave like the real primitives.
package vsched

import "unsafe"

// Active is true only while a controlled concurrent execution is running; it
// is written by the explorer before the threads start and after they joined.
var Active bool

type Kind uint8

const (
	KLock Kind = iota + 1
	KUnlock
	KRLock
	KRUnlock
	KLoad
	KStore
	KFS
	KChan
	KSelect
	KCall
	KRet
	KUser
	KStuck
)

// Acc names one object an operation touches and whether it may change it.
type Acc struct {
	Obj uint64
	W   bool
}

func ptr(p unsafe.Pointer) uint64 { return uint64(uintptr(p)) }

// Str hashes a name (path, "F:<id>") into an object id (FNV-1a).
//
//go:norace
func Str(s string) uint64 {
	h := uint64(14695981039346656037)
	for i := 0; i < len(s); i++ {
		h ^= uint64(s[i])
		h *= 1099511628211
	}
	return h | 1<<63
}
