package vsched

import (
	"runtime"
	"syscall"
	"time"
	"unsafe"
)

// The cooperative scheduler. Harness threads are goroutines of which exactly
// one runs at a time. The running thread calls into the scheduler before every
// visible operation (a "point"); there the next thread to run is decided from
// a choice list (replay) or by the default rule (keep running the current
// thread if its pending operation is enabled, else the lowest enabled id).
//
// Everything in this file is //go:norace and uses no maps and no real
// synchronisation: the hand-off between threads is a spin on a plain word, so
// the race detector sees none of it and the happens-before edges it does see
// are exactly the ones the program under test creates.

const maxThreads = 8
const maxObjs = 256
const maxAcc = 4
const maxSel = 4

type objKind uint8

const (
	oPlain objKind = iota
	oMutex
	oRW
	oChan
)

type object struct {
	id   uint64
	kind objKind
	// mutex / rw
	held    bool // mutex held or rw write-held
	readers int
	waitW   int // writers that announced Lock and wait
	// chan
	clen, ccap int
	closed     bool
	// happens-before hashing
	lastW uint64
	reads uint64
}

type selCase struct {
	obj  uint64          // vchan object (0 = real channel)
	real <-chan struct{} // real Done-like channel polled without blocking
}

type op struct {
	kind   Kind
	sub    uint8 // lock phases, chan op kinds
	obj    uint64
	accs   [maxAcc]Acc
	nacc   int
	sel    [maxSel]selCase
	nsel   int
	chosen int // select: ready case picked
	label  string
}

const (
	subNone uint8 = iota
	subLockReq
	subLockAcq
	subSend
	subRecv
	subClose
	subSelDefault // select with a default clause
)

type tstate uint8

const (
	tNew tstate = iota
	tRunning
	tPending
	tDone
)

type thread struct {
	state   tstate
	op      op
	hash    uint64 // hash of the thread's last event
	nevents int
	blocked bool // was ever found pending on a disabled select (parked waiter)
}

// Decision is one scheduling decision of an execution.
type Decision struct {
	Enabled  [maxThreads]int8 // thread ids in canonical order
	N        int
	Chosen   int    // index into Enabled
	State    uint64 // identity of the happens-before prefix (plus running thread)
	Running  int    // thread that was running when the decision was taken (-1: none)
	CurStill bool   // the running thread was itself enabled (switching away is a preemption)
	OpKind   Kind   // pending operation of the chosen thread
}

// Event is one entry of the call history.
type HistEvent struct {
	Thread int
	Call   int  // index of the call within the thread
	Ret    bool // false: invocation, true: response
	Step   int  // global step counter
}

type sched struct {
	threads  [maxThreads]thread
	n        int
	objs     [maxObjs]object
	nobj     int
	cur      int
	prefix   []int
	dec      []Decision
	hist     []HistEvent
	step     int
	deadlock bool
	diverged string
	overflow bool
	done     bool
	ops      int
}

var s sched

// turn: id of the thread allowed to run, -1 = the main goroutine.
var turn int32 = -1
var abort bool

//go:norace
func mix(h, v uint64) uint64 {
	h ^= v + 0x9E3779B97F4A7C15 + (h << 6) + (h >> 2)
	h *= 0xff51afd7ed558ccd
	h ^= h >> 33
	return h
}

//go:norace
func findObj(id uint64, kind objKind) *object {
	for i := 0; i < s.nobj; i++ {
		if s.objs[i].id == id {
			return &s.objs[i]
		}
	}
	if s.nobj >= maxObjs {
		s.overflow = true
		return &s.objs[maxObjs-1]
	}
	o := &s.objs[s.nobj]
	s.nobj++
	*o = object{id: id, kind: kind}
	return o
}

// ---------------------------------------------------------------- control

// Begin prepares an execution with n threads that replays prefix.
//
//go:norace
func Begin(n int, prefix []int) {
	s = sched{n: n, cur: -1, prefix: prefix}
	s.dec = make([]Decision, 0, 256)
	s.hist = make([]HistEvent, 0, 32)
	turn = -1
	abort = false
	Active = true
}

// Enter is called by thread id as its first action (it parks until scheduled).
//
//go:norace
func Enter(id int) {
	waitTurn(int32(id))
}

// Exit is called by thread id when its body has returned.
//
//go:norace
func Exit(id int) {
	s.threads[id].state = tDone
	schedule()
}

// Run is called by the main goroutine after the threads have been started:
// it takes the first decision and returns when all threads are done, on
// deadlock, or when guard expires (hung=true).
//
//go:norace
func Run(guard time.Duration) (hung bool) {
	for i := 0; i < s.n; i++ {
		s.threads[i].state = tPending
		s.threads[i].op = op{kind: KUser, label: "start"}
	}
	schedule()
	start := cpuNow()
	for spins := 0; turn != -1; spins++ {
		runtime.Gosched()
		if spins&1023 == 1023 && cpuNow()-start > guard {
			abort = true
			Active = false
			return true
		}
	}
	Active = false
	return false
}

// ParkedInSelect reports whether thread id is pending on a select (a parked waiter).
//
//go:norace
func ParkedInSelect(id int) bool {
	return s.threads[id].state == tPending && s.threads[id].op.kind == KSelect && hasRealCase(&s.threads[id].op)
}

// EverParked reports whether thread id was ever found waiting on a select with no ready case.
//
//go:norace
func EverParked(id int) bool { return s.threads[id].blocked }

// Finished reports whether thread id has run to completion.
//
//go:norace
func Finished(id int) bool { return s.threads[id].state == tDone }

// Resume continues an execution that stopped with parked threads after the
// harness has changed the world from outside (cancelled contexts).
//
//go:norace
func Resume(guard time.Duration) (hung bool) {
	s.deadlock = false
	s.done = false
	s.cur = -1
	Active = true
	schedule()
	start := cpuNow()
	for spins := 0; turn != -1; spins++ {
		runtime.Gosched()
		if spins&1023 == 1023 && cpuNow()-start > guard {
			abort = true
			Active = false
			return true
		}
	}
	Active = false
	return false
}

// Abort releases parked threads (they exit) after a deadlock.
//
//go:norace
func Abort() {
	abort = true
	Active = false
}

//go:norace
func waitTurn(id int32) {
	for turn != id {
		if abort {
			runtime.Goexit()
		}
		runtime.Gosched()
	}
}

// Results of the last execution.
//
//go:norace
func Decisions() []Decision { return s.dec }

//go:norace
func History() []HistEvent { return s.hist }

//go:norace
func Deadlocked() (bool, string) {
	if !s.deadlock {
		return false, ""
	}
	d := ""
	for i := 0; i < s.n; i++ {
		if s.threads[i].state == tPending {
			d += "T" + string(rune('0'+i)) + " blocked in " + opName(&s.threads[i].op) + "; "
		}
	}
	return true, d
}

//go:norace
func Diverged() string { return s.diverged }

//go:norace
func Overflow() bool { return s.overflow }

//go:norace
func Ops() int { return s.ops }

//go:norace
func opName(o *op) string {
	switch o.kind {
	case KLock:
		if o.sub == subLockReq {
			return "RWMutex.Lock (announce)"
		}
		if o.sub == subLockAcq {
			return "RWMutex.Lock (acquire)"
		}
		return "Mutex.Lock"
	case KRLock:
		return "RWMutex.RLock"
	case KLoad:
		return "atomic load"
	case KStore:
		return "atomic store"
	case KFS:
		return "file-system call"
	case KChan:
		switch o.sub {
		case subSend:
			return "channel send"
		case subRecv:
			return "channel receive"
		default:
			return "channel close"
		}
	case KSelect:
		return "select"
	case KCall:
		return "call " + o.label
	case KStuck:
		return o.label
	default:
		return o.label
	}
}

// ---------------------------------------------------------------- enabledness

//go:norace
func hasRealCase(o *op) bool {
	for i := 0; i < o.nsel; i++ {
		if o.sel[i].obj == 0 {
			return true
		}
	}
	return false
}

//go:norace
func pollReal(c <-chan struct{}) bool {
	select {
	case <-c:
		return true
	default:
		return false
	}
}

//go:norace
func enabled(t *thread) bool {
	o := &t.op
	switch o.kind {
	case KLock:
		ob := findObj(o.obj, oMutex)
		switch o.sub {
		case subLockReq:
			return true
		case subLockAcq:
			return !ob.held && ob.readers == 0
		default:
			return !ob.held
		}
	case KRLock:
		ob := findObj(o.obj, oRW)
		return !ob.held && ob.waitW == 0
	case KChan:
		ob := findObj(o.obj, oChan)
		switch o.sub {
		case subSend:
			return ob.closed || ob.clen < ob.ccap
		case subRecv:
			return ob.closed || ob.clen > 0
		default:
			return true
		}
	case KStuck:
		return false
	case KSelect:
		if o.sub == subSelDefault {
			return true // a select with a default clause never waits
		}
		for i := 0; i < o.nsel; i++ {
			c := &o.sel[i]
			if c.obj == 0 {
				if pollReal(c.real) {
					return true
				}
			} else {
				ob := findObj(c.obj, oChan)
				if ob.closed || ob.clen > 0 {
					return true
				}
			}
		}
		return false
	default:
		return true
	}
}

// ---------------------------------------------------------------- scheduling

//go:norace
func stateHash() uint64 {
	h := uint64(0x1234567)
	for i := 0; i < s.n; i++ {
		t := &s.threads[i]
		h = mix(h, t.hash)
		h = mix(h, uint64(t.state))
	}
	h = mix(h, uint64(s.cur+1))
	return h
}

// schedule is run by the thread that just parked (or finished, or by main at
// the start): it picks the next thread and hands the turn over.
//
//go:norace
func schedule() {
	var d Decision
	d.Running = s.cur
	// canonical order: the running thread first if still enabled, then ascending ids
	if s.cur >= 0 && s.threads[s.cur].state == tPending && enabled(&s.threads[s.cur]) {
		d.Enabled[d.N] = int8(s.cur)
		d.N++
		d.CurStill = true
	}
	allDone := true
	for i := 0; i < s.n; i++ {
		t := &s.threads[i]
		if t.state != tDone {
			allDone = false
		}
		if i == s.cur && d.CurStill {
			continue
		}
		if t.state == tPending {
			if enabled(t) {
				d.Enabled[d.N] = int8(i)
				d.N++
			} else if t.op.kind == KSelect && hasRealCase(&t.op) {
				// a parked waiter: it waits in a select that also watches its context. (Waiting for
				// the barrier token, with or without a select around the receive, is mutual
				// exclusion, not parking.)
				t.blocked = true
			}
		}
	}
	if d.N == 0 {
		if !allDone {
			s.deadlock = true
		}
		s.done = true
		s.cur = -1
		turn = -1
		return
	}
	d.State = stateHash()
	k := len(s.dec)
	if k < len(s.prefix) {
		c := s.prefix[k]
		if c < 0 || c >= d.N {
			s.diverged = "replayed choice out of range"
			c = 0
		}
		d.Chosen = c
	}
	next := int(d.Enabled[d.Chosen])
	d.OpKind = s.threads[next].op.kind
	s.dec = append(s.dec, d)
	me := s.cur
	s.cur = next
	s.threads[next].state = tRunning
	execute(next)
	turn = int32(next)
	_ = me
}

// execute applies the effect of the chosen thread's pending operation to the
// object model and records its happens-before event.
//
//go:norace
func execute(id int) {
	t := &s.threads[id]
	o := &t.op
	s.ops++
	switch o.kind {
	case KLock:
		switch o.sub {
		case subLockReq:
			findObj(o.obj, oRW).waitW++
		case subLockAcq:
			ob := findObj(o.obj, oRW)
			ob.waitW--
			ob.held = true
		default:
			findObj(o.obj, oMutex).held = true
		}
	case KRLock:
		findObj(o.obj, oRW).readers++
	case KChan:
		ob := findObj(o.obj, oChan)
		switch o.sub {
		case subSend:
			if !ob.closed {
				ob.clen++
			}
		case subRecv:
			if ob.clen > 0 {
				ob.clen--
			}
		case subClose:
			ob.closed = true
		}
	case KSelect:
		o.chosen = -1
		for i := 0; i < o.nsel; i++ {
			c := &o.sel[i]
			if c.obj == 0 {
				if pollReal(c.real) {
					o.chosen = i
					break
				}
			} else {
				ob := findObj(c.obj, oChan)
				if ob.closed || ob.clen > 0 {
					if ob.clen > 0 {
						ob.clen--
					}
					o.chosen = i
					break
				}
			}
		}
	case KCall:
		s.hist = append(s.hist, HistEvent{Thread: id, Call: int(o.obj), Step: s.step})
	}
	s.step++
	record(t, o)
}

// record computes the event hash: thread, kind, position in the thread, the
// thread's previous event and the last conflicting events on every object the
// operation touches (two reads of the same object commute).
//
//go:norace
func record(t *thread, o *op) {
	h := mix(uint64(o.kind)<<8|uint64(o.sub), uint64(t.nevents))
	h = mix(h, t.hash)
	if o.kind == KSelect {
		h = mix(h, uint64(o.chosen+1))
	}
	for i := 0; i < o.nacc; i++ {
		a := o.accs[i]
		ob := findObj(a.Obj, oPlain)
		if a.W {
			h = mix(h, ob.lastW)
			h = mix(h, ob.reads)
		} else {
			h = mix(h, ob.lastW)
		}
	}
	for i := 0; i < o.nacc; i++ {
		a := o.accs[i]
		ob := findObj(a.Obj, oPlain)
		if a.W {
			ob.lastW = h
			ob.reads = 0
		} else {
			ob.reads += h // commutative
		}
	}
	t.hash = h
	t.nevents++
}

// point parks the running thread with a pending operation until scheduled.
//
//go:norace
func point(o *op) *op {
	id := s.cur
	t := &s.threads[id]
	t.op = *o
	t.state = tPending
	schedule()
	waitTurn(int32(id))
	return &t.op
}

// event records an operation that needs no scheduling point (releases, responses).
//
//go:norace
func event(o *op) {
	t := &s.threads[s.cur]
	s.step++
	record(t, o)
}

// ---------------------------------------------------------------- operations

//go:norace
func Visible(k Kind, a ...Acc) {
	var o op
	o.kind = k
	for i := 0; i < len(a) && i < maxAcc; i++ {
		o.accs[i] = a[i]
		o.nacc++
	}
	point(&o)
}

//go:norace
func MutexLock(p unsafe.Pointer) {
	o := op{kind: KLock, obj: ptr(p), nacc: 1}
	o.accs[0] = Acc{Obj: ptr(p), W: true}
	findObj(ptr(p), oMutex)
	point(&o)
}

//go:norace
func MutexUnlock(p unsafe.Pointer) {
	findObj(ptr(p), oMutex).held = false
	o := op{kind: KUnlock, obj: ptr(p), nacc: 1}
	o.accs[0] = Acc{Obj: ptr(p), W: true}
	event(&o)
}

//go:norace
func RWLock(p unsafe.Pointer) {
	findObj(ptr(p), oRW)
	o := op{kind: KLock, sub: subLockReq, obj: ptr(p), nacc: 1}
	o.accs[0] = Acc{Obj: ptr(p), W: true}
	point(&o)
	o2 := op{kind: KLock, sub: subLockAcq, obj: ptr(p), nacc: 1}
	o2.accs[0] = Acc{Obj: ptr(p), W: true}
	point(&o2)
}

//go:norace
func RWUnlock(p unsafe.Pointer) {
	findObj(ptr(p), oRW).held = false
	o := op{kind: KUnlock, obj: ptr(p), nacc: 1}
	o.accs[0] = Acc{Obj: ptr(p), W: true}
	event(&o)
}

//go:norace
func RWRLock(p unsafe.Pointer) {
	findObj(ptr(p), oRW)
	o := op{kind: KRLock, obj: ptr(p), nacc: 1}
	o.accs[0] = Acc{Obj: ptr(p), W: false}
	point(&o)
}

//go:norace
func RWRUnlock(p unsafe.Pointer) {
	ob := findObj(ptr(p), oRW)
	if ob.readers > 0 {
		ob.readers--
	}
	o := op{kind: KRUnlock, obj: ptr(p), nacc: 1}
	o.accs[0] = Acc{Obj: ptr(p), W: false}
	event(&o)
}

//go:norace
func Ptr(p unsafe.Pointer) uint64 { return ptr(p) }

// global pseudo-object on which invocations and responses of harness calls
// are events: interleavings that differ in the real-time order of calls are
// never merged.
const globalObj = 0xC0FFEE

// Call is a scheduling point taken right before call number n of the running
// thread is invoked.
//
//go:norace
func Call(n int, label string) {
	o := op{kind: KCall, obj: uint64(n), label: label, nacc: 1}
	o.accs[0] = Acc{Obj: globalObj, W: true}
	point(&o)
}

// Ret records the response of call n (no scheduling point: responding as
// early as possible is the most constraining real-time order).
//
//go:norace
func Ret(n int) {
	s.hist = append(s.hist, HistEvent{Thread: s.cur, Call: n, Ret: true, Step: s.step})
	o := op{kind: KRet, obj: uint64(n), nacc: 1}
	o.accs[0] = Acc{Obj: globalObj, W: true}
	event(&o)
}

// Stuck parks the running thread for ever: the real primitive underneath is
// not available although the model says it is (a lock left held by a call
// that has returned or panicked). The execution then ends as a deadlock.
//
//go:norace
func Stuck(label string) {
	o := op{kind: KStuck, label: label}
	point(&o)
}

// Yield is a plain scheduling point for harness code (e.g. cancelling a context).
//
//go:norace
func Yield(label string, obj uint64) {
	o := op{kind: KUser, label: label, nacc: 1}
	o.accs[0] = Acc{Obj: obj, W: true}
	point(&o)
}

// ---------------------------------------------------------------- channels

// ChanEnsure registers a channel with its current real state the first time
// the execution touches it.
//
//go:norace
func ChanEnsure(id uint64, clen, ccap int, closed bool) {
	for i := 0; i < s.nobj; i++ {
		if s.objs[i].id == id {
			return
		}
	}
	ob := findObj(id, oChan)
	ob.clen, ob.ccap, ob.closed = clen, ccap, closed
}

// RealChanObj stands for all real Done-like channels in the happens-before
// hashing; the harness names it when it cancels a context.
const RealChanObj = 0xD09E

//go:norace
func ChanSend(id uint64) {
	o := op{kind: KChan, sub: subSend, obj: id, nacc: 1}
	o.accs[0] = Acc{Obj: id, W: true}
	point(&o)
}

//go:norace
func ChanRecv(id uint64) {
	o := op{kind: KChan, sub: subRecv, obj: id, nacc: 1}
	o.accs[0] = Acc{Obj: id, W: true}
	point(&o)
}

//go:norace
func ChanClose(id uint64) {
	o := op{kind: KChan, sub: subClose, obj: id, nacc: 1}
	o.accs[0] = Acc{Obj: id, W: true}
	point(&o)
}

// Select parks until one of the cases is ready and returns its index. A case
// is either a receive from a modelled channel (id != 0) or from a real
// Done-like channel (only ever closed).
//
//go:norace
func Select(ids []uint64, reals []<-chan struct{}) int { return selectOp(ids, reals, 0) }

// TrySelect is a select with a default clause: it returns -1 when no case is ready.
//
//go:norace
func TrySelect(ids []uint64, reals []<-chan struct{}) int {
	return selectOp(ids, reals, subSelDefault)
}

//go:norace
func selectOp(ids []uint64, reals []<-chan struct{}, sub uint8) int {
	var o op
	o.kind = KSelect
	o.sub = sub
	for i := 0; i < len(ids) && i < maxSel; i++ {
		o.sel[i] = selCase{obj: ids[i], real: reals[i]}
		o.nsel++
		if o.nacc < maxAcc {
			if ids[i] != 0 {
				o.accs[o.nacc] = Acc{Obj: ids[i], W: true}
			} else {
				o.accs[o.nacc] = Acc{Obj: RealChanObj, W: false}
			}
			o.nacc++
		}
	}
	return point(&o).chosen
}

// KindName names an operation kind for traces.
func KindName(k Kind) string {
	switch k {
	case KLock:
		return "lock"
	case KRLock:
		return "rlock"
	case KLoad:
		return "atomic load"
	case KStore:
		return "atomic store"
	case KFS:
		return "file-system call"
	case KChan:
		return "channel op"
	case KSelect:
		return "select"
	case KCall:
		return "invoke call"
	case KUser:
		return "start/harness"
	default:
		return "op"
	}
}

// cpuNow is the CPU time (user + system) this process has used. The guards of Run and Resume
// count CPU time, not wall-clock time: the spinning scheduler loop burns CPU whenever the
// process runs, so a thread that never reaches its next scheduling point is still noticed,
// while a machine that is merely overloaded can never turn into a verdict.
//
//go:norace
func cpuNow() time.Duration {
	var ru syscall.Rusage
	if err := syscall.Getrusage(syscall.RUSAGE_SELF, &ru); err != nil {
		return time.Duration(time.Now().UnixNano())
	}
	return time.Duration(ru.Utime.Nano() + ru.Stime.Nano())
}
