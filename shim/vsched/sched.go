package vsched

import "unsafe"

// Stubs: replaced by the real scheduler (E4).

func Visible(k Kind, a ...Acc)          {}
func MutexLock(p unsafe.Pointer)        {}
func MutexUnlock(p unsafe.Pointer)      {}
func RWLock(p unsafe.Pointer)           {}
func RWUnlock(p unsafe.Pointer)         {}
func RWRLock(p unsafe.Pointer)          {}
func RWRUnlock(p unsafe.Pointer)        {}
func Ptr(p unsafe.Pointer) uint64       { return ptr(p) }
