// Package vos stands in for "os" in the klevdb sources (import rewrite by
// vgen). Every call is forwarded to the real os package on a real directory;
// around the forward the shim (a) appends an event to the file-system journal
// when journaling is on and (b) announces the operation to the cooperative
// scheduler when that is active. Files are tracked by an identity that
// follows renames, so that fsync'd lengths stay with the file.
package vos

import (
	"io"
	"io/fs"
	"os"
	"path/filepath"
	"sync"
	"time"

	"github.com/klev-dev/klevdb/pkg/vshim/vsched"
)

const (
	O_RDONLY = os.O_RDONLY
	O_WRONLY = os.O_WRONLY
	O_RDWR   = os.O_RDWR
	O_APPEND = os.O_APPEND
	O_CREATE = os.O_CREATE
	O_EXCL   = os.O_EXCL
	O_SYNC   = os.O_SYNC
	O_TRUNC  = os.O_TRUNC
)

var (
	ErrNotExist   = os.ErrNotExist
	ErrExist      = os.ErrExist
	ErrPermission = os.ErrPermission
	ErrClosed     = os.ErrClosed
	ErrInvalid    = os.ErrInvalid
)

type FileMode = os.FileMode
type FileInfo = os.FileInfo
type DirEntry = os.DirEntry
type PathError = os.PathError

var (
	IsExist    = os.IsExist
	IsNotExist = os.IsNotExist
)

// ---------------------------------------------------------------- journal

type EvKind uint8

const (
	EvCreate EvKind = iota + 1 // Path, File
	EvWrite                    // File, Off, Data
	EvTrunc                    // File, Off (= new size)
	EvFsync                    // File
	EvFsyncDir                 // Path
	EvRename                   // Path -> Path2
	EvRemove                   // Path
	EvMkdir                    // Path
	EvChtimes                  // Path
	EvMark                     // Mark (harness annotations: call begin / end)
)

func (k EvKind) String() string {
	return [...]string{"?", "create", "write", "trunc", "fsync", "fsyncdir", "rename", "remove", "mkdir", "chtimes", "mark"}[k]
}

type Event struct {
	Kind  EvKind
	Path  string
	Path2 string
	File  int
	Off   int64
	Data  []byte
	Mark  string
}

type table struct {
	mu       sync.Mutex
	tracking bool
	journal  bool
	root     string
	ids      map[string]int // path -> file id
	sizes    map[int]int64
	next     int
	events   []Event
}

var tab table

// Track starts file-identity tracking under root (needed by the scheduler and
// the journal). Existing files get identities in name order.
func Track(root string) {
	tab.mu.Lock()
	defer tab.mu.Unlock()
	tab.tracking = true
	tab.root = filepath.Clean(root)
	tab.ids = map[string]int{}
	tab.sizes = map[int]int64{}
	tab.next = 0
	tab.events = nil
	ents, _ := os.ReadDir(root)
	for _, e := range ents {
		if e.Type().IsRegular() {
			p := filepath.Join(tab.root, e.Name())
			tab.next++
			tab.ids[p] = tab.next
			if st, err := os.Stat(p); err == nil {
				tab.sizes[tab.next] = st.Size()
			}
		}
	}
}

// StartJournal = Track + record events. Files already present are journaled
// as created, written and fsynced (the baseline of the run).
func StartJournal(root string) {
	Track(root)
	tab.mu.Lock()
	defer tab.mu.Unlock()
	tab.journal = true
	var names []string
	for p := range tab.ids {
		names = append(names, p)
	}
	sortStrings(names)
	for _, p := range names {
		id := tab.ids[p]
		data, _ := os.ReadFile(p)
		tab.events = append(tab.events, Event{Kind: EvCreate, Path: p, File: id})
		if len(data) > 0 {
			tab.events = append(tab.events, Event{Kind: EvWrite, File: id, Off: 0, Data: data})
		}
		tab.events = append(tab.events, Event{Kind: EvFsync, File: id})
	}
}

func sortStrings(s []string) {
	for i := 1; i < len(s); i++ {
		for j := i; j > 0 && s[j] < s[j-1]; j-- {
			s[j], s[j-1] = s[j-1], s[j]
		}
	}
}

// StartJournalQuiet is StartJournal without baseline events: files already
// present are only given identities, which are returned by base name.
func StartJournalQuiet(root string) map[string]int {
	Track(root)
	tab.mu.Lock()
	defer tab.mu.Unlock()
	tab.journal = true
	ids := map[string]int{}
	for p, id := range tab.ids {
		ids[filepath.Base(p)] = id
	}
	return ids
}

// Stop ends tracking and journaling and returns the journal.
func Stop() []Event {
	tab.mu.Lock()
	defer tab.mu.Unlock()
	ev := tab.events
	tab.tracking, tab.journal = false, false
	tab.events, tab.ids, tab.sizes = nil, nil, nil
	return ev
}

// Mark adds a harness annotation to the journal.
func Mark(s string) {
	tab.mu.Lock()
	defer tab.mu.Unlock()
	if tab.journal {
		tab.events = append(tab.events, Event{Kind: EvMark, Mark: s})
	}
}

// JournalLen returns the number of events recorded so far.
func JournalLen() int {
	tab.mu.Lock()
	defer tab.mu.Unlock()
	return len(tab.events)
}

func (t *table) in(p string) bool {
	return t.tracking && len(p) > len(t.root) && p[:len(t.root)] == t.root && p[len(t.root)] == filepath.Separator
}

func (t *table) add(e Event) {
	if t.journal {
		t.events = append(t.events, e)
	}
}

func pobj(p string) vsched.Acc { return vsched.Acc{Obj: vsched.Str("P:" + p)} }
func pobjW(p string) vsched.Acc {
	return vsched.Acc{Obj: vsched.Str("P:" + p), W: true}
}
func dobj(p string, w bool) vsched.Acc {
	return vsched.Acc{Obj: vsched.Str("D:" + filepath.Dir(p)), W: w}
}
// content of the file a handle was opened on (same object as the path:
// klevdb never uses a handle after its file has been renamed)
func (f *File) cobj(w bool) vsched.Acc {
	return vsched.Acc{Obj: vsched.Str("P:" + f.path), W: w}
}

// ---------------------------------------------------------------- File

type File struct {
	*os.File
	path  string
	id    int
	isDir bool
}

func wrap(f *os.File, name string) *File {
	return &File{File: f, path: filepath.Clean(name)}
}

func OpenFile(name string, flag int, perm FileMode) (*File, error) {
	clean := filepath.Clean(name)
	// the scheduling point comes before anything that synchronises (the table
	// lock below would otherwise order the callers for the race detector)
	if vsched.Active {
		if flag&(os.O_CREATE|os.O_TRUNC) != 0 {
			vsched.Visible(vsched.KFS, pobjW(clean), dobj(clean, true))
		} else {
			vsched.Visible(vsched.KFS, pobj(clean))
		}
	}
	tab.mu.Lock()
	tracked := tab.in(clean)
	tab.mu.Unlock()
	if !tracked {
		f, err := os.OpenFile(name, flag, perm)
		if err != nil {
			return nil, err
		}
		return wrap(f, name), nil
	}
	writes := flag&(os.O_CREATE|os.O_TRUNC) != 0
	existed := false
	if writes {
		if _, err := os.Lstat(clean); err == nil {
			existed = true
		}
	}
	f, err := os.OpenFile(name, flag, perm)
	if err != nil {
		return nil, err
	}
	vf := wrap(f, name)
	tab.mu.Lock()
	if tab.tracking {
		if flag&os.O_CREATE != 0 && !existed {
			tab.next++
			tab.ids[clean] = tab.next
			tab.sizes[tab.next] = 0
			tab.add(Event{Kind: EvCreate, Path: clean, File: tab.next})
		} else if flag&os.O_TRUNC != 0 && existed {
			id := tab.ids[clean]
			if tab.sizes[id] != 0 {
				tab.sizes[id] = 0
				tab.add(Event{Kind: EvTrunc, File: id, Off: 0})
			}
		}
		vf.id = tab.ids[clean]
	}
	tab.mu.Unlock()
	if st, err := f.Stat(); err == nil && st.IsDir() {
		vf.isDir = true
	}
	return vf, nil
}

func Open(name string) (*File, error) { return OpenFile(name, os.O_RDONLY, 0) }

func Create(name string) (*File, error) {
	return OpenFile(name, os.O_RDWR|os.O_CREATE|os.O_TRUNC, 0o666)
}

func (f *File) tracked() bool { return f.id != 0 }

func (f *File) Write(b []byte) (int, error) {
	if vsched.Active {
		vsched.Visible(vsched.KFS, f.cobj(true))
	}
	if !f.tracked() {
		return f.File.Write(b)
	}
	n, err := f.File.Write(b)
	tab.mu.Lock()
	if tab.tracking && n > 0 {
		// all klevdb writers are O_APPEND; position = current size
		off := tab.sizes[f.id]
		if st, serr := f.File.Stat(); serr == nil {
			off = st.Size() - int64(n)
		}
		tab.sizes[f.id] = off + int64(n)
		if tab.journal {
			tab.add(Event{Kind: EvWrite, File: f.id, Off: off, Data: append([]byte(nil), b[:n]...)})
		}
	}
	tab.mu.Unlock()
	return n, err
}

func (f *File) WriteString(s string) (int, error) { return f.Write([]byte(s)) }

func (f *File) WriteAt(b []byte, off int64) (int, error) {
	if vsched.Active {
		vsched.Visible(vsched.KFS, f.cobj(true))
	}
	if !f.tracked() {
		return f.File.WriteAt(b, off)
	}
	n, err := f.File.WriteAt(b, off)
	tab.mu.Lock()
	if tab.tracking && n > 0 {
		if off+int64(n) > tab.sizes[f.id] {
			tab.sizes[f.id] = off + int64(n)
		}
		tab.add(Event{Kind: EvWrite, File: f.id, Off: off, Data: append([]byte(nil), b[:n]...)})
	}
	tab.mu.Unlock()
	return n, err
}

type onlyWriter struct{ io.Writer }
type onlyReader struct{ io.Reader }

// ReadFrom keeps io.Copy on the hooked Write path (no copy_file_range).
func (f *File) ReadFrom(r io.Reader) (int64, error) {
	return io.Copy(onlyWriter{f}, onlyReader{r})
}

func (f *File) WriteTo(w io.Writer) (int64, error) {
	return io.Copy(w, onlyReader{f})
}

func (f *File) ReadAt(b []byte, off int64) (int, error) {
	if vsched.Active && !f.isDir {
		vsched.Visible(vsched.KFS, f.cobj(false))
	}
	return f.File.ReadAt(b, off)
}

func (f *File) Read(b []byte) (int, error) {
	if vsched.Active && !f.isDir {
		vsched.Visible(vsched.KFS, f.cobj(false))
	}
	return f.File.Read(b)
}

func (f *File) Truncate(size int64) error {
	if vsched.Active {
		vsched.Visible(vsched.KFS, f.cobj(true))
	}
	if !f.tracked() {
		return f.File.Truncate(size)
	}
	err := f.File.Truncate(size)
	if err == nil {
		tab.mu.Lock()
		if tab.tracking {
			tab.sizes[f.id] = size
			tab.add(Event{Kind: EvTrunc, File: f.id, Off: size})
		}
		tab.mu.Unlock()
	}
	return err
}

func (f *File) Sync() error {
	if vsched.Active {
		if f.isDir {
			vsched.Visible(vsched.KFS, vsched.Acc{Obj: vsched.Str("D:" + f.path)})
		} else {
			vsched.Visible(vsched.KFS, f.cobj(false))
		}
	}
	tab.mu.Lock()
	tracking := tab.tracking
	inroot := f.isDir && (tab.in(f.path) || f.path == tab.root)
	tab.mu.Unlock()
	if !tracking || (!f.tracked() && !inroot) {
		return f.File.Sync()
	}
	err := f.File.Sync()
	if err == nil {
		tab.mu.Lock()
		if f.isDir {
			tab.add(Event{Kind: EvFsyncDir, Path: f.path})
		} else {
			tab.add(Event{Kind: EvFsync, File: f.id})
		}
		tab.mu.Unlock()
	}
	return err
}

func (f *File) Close() error { return f.File.Close() }

// ---------------------------------------------------------------- path ops

func Stat(name string) (FileInfo, error) {
	clean := filepath.Clean(name)
	if vsched.Active {
		vsched.Visible(vsched.KFS, pobj(clean))
	}
	return os.Stat(name)
}

func Lstat(name string) (FileInfo, error) { return Stat(name) }

func Remove(name string) error {
	clean := filepath.Clean(name)
	if vsched.Active {
		vsched.Visible(vsched.KFS, pobjW(clean), dobj(clean, true))
	}
	tab.mu.Lock()
	tracked := tab.in(clean)
	tab.mu.Unlock()
	if !tracked {
		return os.Remove(name)
	}
	err := os.Remove(name)
	if err == nil {
		tab.mu.Lock()
		if tab.tracking {
			delete(tab.ids, clean)
			tab.add(Event{Kind: EvRemove, Path: clean})
		}
		tab.mu.Unlock()
	}
	return err
}

func Rename(oldpath, newpath string) error {
	o, n := filepath.Clean(oldpath), filepath.Clean(newpath)
	if vsched.Active {
		vsched.Visible(vsched.KFS, pobjW(o), pobjW(n), dobj(o, true))
	}
	tab.mu.Lock()
	tracked := tab.in(o) || tab.in(n)
	tab.mu.Unlock()
	if !tracked {
		return os.Rename(oldpath, newpath)
	}
	err := os.Rename(oldpath, newpath)
	if err == nil {
		tab.mu.Lock()
		if tab.tracking {
			if id, ok := tab.ids[o]; ok {
				tab.ids[n] = id
				delete(tab.ids, o)
			}
			tab.add(Event{Kind: EvRename, Path: o, Path2: n})
		}
		tab.mu.Unlock()
	}
	return err
}

func ReadDir(name string) ([]DirEntry, error) {
	if vsched.Active {
		vsched.Visible(vsched.KFS, vsched.Acc{Obj: vsched.Str("D:" + filepath.Clean(name))})
	}
	return os.ReadDir(name)
}

func MkdirAll(path string, perm FileMode) error {
	err := os.MkdirAll(path, perm)
	if err == nil {
		tab.mu.Lock()
		if tab.in(filepath.Clean(path)) {
			tab.add(Event{Kind: EvMkdir, Path: filepath.Clean(path)})
		}
		tab.mu.Unlock()
	}
	return err
}

func Mkdir(path string, perm FileMode) error { return MkdirAll(path, perm) }

func Chtimes(name string, atime, mtime time.Time) error {
	clean := filepath.Clean(name)
	if vsched.Active {
		vsched.Visible(vsched.KFS, pobjW(clean))
	}
	err := os.Chtimes(name, atime, mtime)
	if err == nil {
		tab.mu.Lock()
		if tab.in(clean) {
			tab.add(Event{Kind: EvChtimes, Path: clean})
		}
		tab.mu.Unlock()
	}
	return err
}

func ReadFile(name string) ([]byte, error) {
	if vsched.Active {
		vsched.Visible(vsched.KFS, pobj(filepath.Clean(name)))
	}
	return os.ReadFile(name)
}

func WriteFile(name string, data []byte, perm FileMode) error {
	f, err := OpenFile(name, os.O_WRONLY|os.O_CREATE|os.O_TRUNC, perm)
	if err != nil {
		return err
	}
	_, err = f.Write(data)
	if cerr := f.Close(); err == nil {
		err = cerr
	}
	return err
}

func RemoveAll(path string) error { return os.RemoveAll(path) }

var (
	_ fs.FileInfo
)
