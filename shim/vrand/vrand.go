// Package vrand stands in for "crypto/rand": a counter-based Reader so that
// temp-file suffixes (and therefore directory contents) are identical across
// replays of the same history. Reset restarts the sequence.
package vrand

import "io"

type ctr struct{ n uint64 }

var state ctr

func (c *ctr) Read(p []byte) (int, error) {
	for i := range p {
		c.n++
		x := c.n * 0x9E3779B97F4A7C15
		p[i] = byte(x >> 56)
	}
	return len(p), nil
}

var Reader io.Reader = &state

func Reset() { state.n = 0 }

func Read(b []byte) (int, error) { return state.Read(b) }
