package crashx

import (
	"fmt"
	"sort"
	"strings"

	"github.com/klev-dev/klevdb/pkg/vshim/vos"

	"verif/h/drv"
	"verif/h/model"
)

// LossOutcome is what the real recovery shows for one power-loss image.
type LossOutcome struct {
	Desc    string
	OpenErr string
	ReadErr string
	Walk    []model.Msg
	Next    int64
	Durable string
}

// TailLoss replays the first k events of a file-system journal and evaluates
// every tail-loss image of that point the way the sequential C06 check does:
// each file with unsynced bytes cut to its fsynced length, every append
// boundary since, torn lengths inside its last append, or not at all (never
// inside the 8-byte file header); every combination, recovered on the real
// code (Open with Recover, cursor walk, NextOffset, and one publish + Sync +
// recovery after that). Used by the concurrent part of C06, where k is the
// moment a Sync (or a Publish under AutoSync) returned.
func TailLoss(events []vos.Event, k int, cfg drv.Cfg, tier string) []LossOutcome {
	fs := newFS()
	for _, e := range events[:k] {
		if e.Kind != vos.EvMark {
			fs.apply(e)
		}
	}
	type cutFile struct {
		name string
		cuts []int
	}
	var cf []cutFile
	var names []string
	for n := range fs.names {
		names = append(names, n)
	}
	sort.Strings(names)
	for _, n := range names {
		fl := fs.files[fs.names[n]]
		if fl.synced >= len(fl.data) {
			continue
		}
		cs := map[int]bool{fl.synced: true, len(fl.data): true}
		prev := fl.synced
		for i, end := range fl.writes {
			if end > fl.synced {
				cs[end] = true
				if i == len(fl.writes)-1 {
					start := prev
					if start < fl.synced {
						start = fl.synced
					}
					for _, b := range tornLens(end-start, tier) {
						cs[start+b] = true
					}
				}
			}
			prev = end
		}
		var cuts []int
		for c := range cs {
			if c > 0 && c < 8 {
				continue // file headers are atomic
			}
			cuts = append(cuts, c)
		}
		sort.Ints(cuts)
		cf = append(cf, cutFile{n, cuts})
	}
	total := 1
	for _, c := range cf {
		total *= len(c.cuts)
	}
	if total > 4000 {
		total = 4000
	}
	base := fs.full()
	var out []LossOutcome
	seen := map[string]bool{}
	for combo := 0; combo < total; combo++ {
		im := image{}
		for n, b := range base {
			im[n] = b
		}
		x := combo
		var desc []string
		for _, c := range cf {
			cut := c.cuts[x%len(c.cuts)]
			x /= len(c.cuts)
			im[c.name] = base[c.name][:cut]
			if cut != len(base[c.name]) {
				desc = append(desc, fmt.Sprintf("%s cut to %d of %d", shortName(c.name), cut, len(base[c.name])))
			}
		}
		dg := im.digest()
		if seen[dg] {
			continue
		}
		seen[dg] = true
		o := evaluateX(im, cfg, false, true)
		lo := LossOutcome{Desc: strings.Join(desc, ", "), OpenErr: o.OpenErr, Walk: o.Walk, Next: o.Next, Durable: o.Durable}
		if lo.Desc == "" {
			lo.Desc = "nothing lost"
		}
		if hasWalkError(o) {
			lo.ReadErr = o.Views[len(o.Views)-1]
		}
		out = append(out, lo)
	}
	return out
}
