// Package crashx is engine E2: for every transition of a breadth-first search
// over API histories it records the file-system journal of the last letter on
// the real code and then enumerates every crash image (every event prefix,
// torn appends at a byte set, crash points inside the recovery that follows)
// for C05 and every power-loss image (every tail-loss cut of every file with
// unsynced bytes, at every event point) for C06. Every distinct image is
// materialised, opened with Recover on the real code, observed, recovered
// again, appended to and checked; the verdict is cached per image.
package crashx

import (
	"bytes"
	"crypto/sha1"
	"encoding/hex"
	"encoding/json"
	"fmt"
	"os"
	"path/filepath"
	"sort"
	"strings"
	"time"

	"github.com/klev-dev/klevdb"
	"github.com/klev-dev/klevdb/pkg/vshim/vos"
	"github.com/klev-dev/klevdb/pkg/vshim/vrand"
	"github.com/klev-dev/klevdb/pkg/vshim/vtime"

	"verif/h/drv"
	"verif/h/model"
	"verif/h/seqx"
)

// ------------------------------------------------------------ FS state model

type fsFile struct {
	data   []byte
	synced int   // bytes guaranteed on stable storage
	writes []int // end offsets of the appends made since the last fsync (cut candidates)
}

type fsState struct {
	files map[int]*fsFile
	names map[string]int // base name -> file id
}

func newFS() *fsState { return &fsState{files: map[int]*fsFile{}, names: map[string]int{}} }

func (s *fsState) apply(e vos.Event) {
	switch e.Kind {
	case vos.EvCreate:
		s.files[e.File] = &fsFile{}
		s.names[filepath.Base(e.Path)] = e.File
	case vos.EvWrite:
		f := s.files[e.File]
		if f == nil {
			return
		}
		end := int(e.Off) + len(e.Data)
		if end > len(f.data) {
			f.data = append(f.data, make([]byte, end-len(f.data))...)
		}
		copy(f.data[e.Off:], e.Data)
		f.writes = append(f.writes, end)
	case vos.EvTrunc:
		if f := s.files[e.File]; f != nil {
			f.data = f.data[:e.Off]
			if f.synced > int(e.Off) {
				f.synced = int(e.Off)
			}
			f.writes = nil
		}
	case vos.EvFsync:
		if f := s.files[e.File]; f != nil {
			f.synced = len(f.data)
			f.writes = nil
		}
	case vos.EvRename:
		a, b := filepath.Base(e.Path), filepath.Base(e.Path2)
		if id, ok := s.names[a]; ok {
			s.names[b] = id
			delete(s.names, a)
		}
	case vos.EvRemove:
		delete(s.names, filepath.Base(e.Path))
	}
}

type image map[string][]byte // file name -> content

func (s *fsState) full() image {
	im := image{}
	for n, id := range s.names {
		im[n] = s.files[id].data
	}
	return im
}

func (im image) digest() string {
	h := sha1.New()
	var names []string
	for n := range im {
		names = append(names, n)
	}
	sort.Strings(names)
	for _, n := range names {
		fmt.Fprintf(h, "%s:%d:", n, len(im[n]))
		h.Write(im[n])
	}
	return hex.EncodeToString(h.Sum(nil)[:12])
}

func (im image) materialise(dir string) error {
	_ = os.RemoveAll(dir)
	if err := os.MkdirAll(dir, 0o700); err != nil {
		return err
	}
	for n, b := range im {
		if err := os.WriteFile(filepath.Join(dir, n), b, 0o600); err != nil {
			return err
		}
	}
	return nil
}

func (im image) describe() string {
	var names []string
	for n := range im {
		names = append(names, fmt.Sprintf("%s(%d)", shortName(n), len(im[n])))
	}
	sort.Strings(names)
	return strings.Join(names, " ")
}

func shortName(n string) string { return strings.TrimLeft(n, "0") }

// fileClass names the role of a file in the storage protocol.
func fileClass(path string) string {
	n := filepath.Base(path)
	switch {
	case strings.Contains(n, ".log.rewrite."):
		return "rewrite-log"
	case strings.Contains(n, ".index.rewrite."):
		return "rewrite-index"
	case strings.HasSuffix(n, ".log.recover"):
		return "recover-log"
	case strings.HasSuffix(n, ".log.migrate"):
		return "migrate-log"
	case strings.HasSuffix(n, ".index.write"):
		return "index-temp"
	case strings.HasSuffix(n, ".log"):
		return "log"
	case strings.HasSuffix(n, ".index"):
		return "index"
	default:
		return "other"
	}
}

func baseOf(path string) string {
	n := filepath.Base(path)
	if i := strings.Index(n, "."); i > 0 {
		return n[:i]
	}
	return n
}

// ------------------------------------------------------------ recorder

type span struct {
	name     string
	from, to int // journal indexes [from,to)
	before   *model.Log
	after    *model.Log
}

type ack struct {
	at int // journal index at which the acknowledgement was returned
	w  int64
}

type recorder struct {
	w     *drv.World
	open  []*span
	spans []*span
	acks  []ack
}

func (r *recorder) Begin(call string) {
	r.open = append(r.open, &span{name: call, from: vos.JournalLen(), before: r.w.M.Clone()})
}

func (r *recorder) End(call string, acked int64) {
	if len(r.open) == 0 {
		return
	}
	s := r.open[len(r.open)-1]
	r.open = r.open[:len(r.open)-1]
	s.to = vos.JournalLen()
	s.after = r.w.M.Clone()
	r.spans = append(r.spans, s)
	if acked >= 0 {
		r.acks = append(r.acks, ack{at: s.to, w: acked})
	}
}

// ctxAt returns the innermost Publish/Delete span containing journal index k
// (the event with that index), or the model in force otherwise.
func (r *recorder) ctxAt(k int, fallback *model.Log) (name string, before, after *model.Log) {
	var best *span
	for _, s := range r.spans {
		if s.from <= k && k < s.to {
			if best == nil || (s.to-s.from) < (best.to-best.from) {
				best = s
			}
		}
	}
	if best == nil {
		return "between calls", fallback, fallback
	}
	return best.name, best.before, best.after
}

func (r *recorder) durableAt(k int) int64 {
	w := int64(0)
	for _, a := range r.acks {
		if a.at <= k && a.w > w {
			w = a.w
		}
	}
	return w
}

// ------------------------------------------------------------ outcomes

// outcome is everything the recovery of one image shows; a pure function of
// the image and the index configuration, cached per worker.
type outcome struct {
	OpenErr  string
	Walk     []model.Msg
	Next     int64
	Views    []string       // disagreements between views of the recovered log
	Idem     string         // what a second recovery changed ("" = nothing)
	Append   string         // failure of append + Check ("" = fine)
	Durable  string         // C06: a message published and Sync'd after the recovery is lost by the next recovery
	RecJ     []vos.Event    // journal of the recovering Open (depth 2)
	RecIDs   map[string]int // file identities the journal refers to
	computed bool
	light    bool
}

type cacheKey struct {
	digest string
	cfg    string
}

var cache = map[cacheKey]*outcome{}
var cacheHits, cacheMiss int

var workerRoot string

func root() string {
	if workerRoot == "" {
		base := os.Getenv("VERIF_SCRATCH")
		if base == "" {
			base = "/dev/shm"
		}
		var err error
		workerRoot, err = os.MkdirTemp(base, fmt.Sprintf("verif.%d.", os.Getpid()))
		if err != nil {
			panic(err)
		}
	}
	return workerRoot
}

func CleanupWorker() {
	if workerRoot != "" {
		_ = os.RemoveAll(workerRoot)
	}
}

func recoverOpts(cfg drv.Cfg) klevdb.Options {
	o := cfg.Options()
	o.Recover = true
	o.Version.EagerVersionMigrate = false
	return o
}

// evaluate materialises an image, recovers it on the real code and collects
// everything the properties talk about. withJournal additionally records the
// file-system journal of the recovering Open (for depth-2 crash points).
func evaluate(im image, cfg drv.Cfg, withJournal bool) *outcome {
	return evaluateX(im, cfg, withJournal, false)
}

// evaluateX: light skips the view comparison, second recovery and append
// (all that C06 needs is Open(Recover), the cursor walk and NextOffset).
func evaluateX(im image, cfg drv.Cfg, withJournal, light bool) *outcome {
	key := cacheKey{im.digest(), fmt.Sprintf("%v/%v/%d", cfg.Keys, cfg.Times, cfg.Ver)}
	if o, ok := cache[key]; ok && (!withJournal || o.RecJ != nil || o.OpenErr != "") && (light || !o.light) {
		cacheHits++
		return o
	}
	cacheMiss++
	o := &outcome{computed: true, light: light}
	cache[key] = o
	dir := filepath.Join(root(), "img")
	if err := im.materialise(dir); err != nil {
		panic(err)
	}
	saveClock := vtime.Clock()
	defer vtime.SetClock(saveClock)
	vrand.Reset()
	ro := recoverOpts(cfg)
	if withJournal {
		o.RecIDs = vos.StartJournalQuiet(dir)
	}
	var lg klevdb.Log
	var err error
	p := safely(func() { lg, err = klevdb.Open(dir, ro) })
	if withJournal {
		o.RecJ = vos.Stop()
		if o.RecJ == nil {
			o.RecJ = []vos.Event{}
		}
	}
	if p != "" {
		o.OpenErr = "panic: " + p
		return o
	}
	if err != nil {
		o.OpenErr = err.Error()
		return o
	}
	// what the recovered log shows through the cursor
	w := &drv.World{Dir: dir, Cfg: cfg, L: lg, M: model.New(), KeySet: []int{0, 1}}
	off := klevdb.OffsetOldest
	var walkErr string
	for i := 0; i < 100; i++ {
		next, msgs, err := safeConsume(lg, off)
		if err != nil {
			walkErr = fmt.Sprintf("Consume(%d) failed: %v", off, err)
			break
		}
		for _, m := range msgs {
			o.Walk = append(o.Walk, model.Msg{Off: m.Offset, T: m.Time.UnixMicro(), Key: m.Key, Val: m.Value})
		}
		if len(msgs) == 0 && (off >= 0 && next <= off) {
			break
		}
		off = next
	}
	n, nerr := lg.NextOffset()
	o.Next = n
	if nerr != nil {
		o.Views = append(o.Views, "NextOffset failed: "+nerr.Error())
	}
	if walkErr != "" {
		o.Views = append(o.Views, walkErr)
	} else {
		// all views must agree with what the cursor shows
		w.M.Live = o.Walk
		w.M.Next = n
		w.M.Monotone = true
		for i := 1; i < len(o.Walk); i++ {
			if o.Walk[i].T < o.Walk[i-1].T {
				w.M.Monotone = false
			}
			if o.Walk[i].Off <= o.Walk[i-1].Off {
				o.Views = append(o.Views, fmt.Sprintf("cursor walk returns offset %d after %d", o.Walk[i].Off, o.Walk[i-1].Off))
			}
		}
		if len(o.Walk) > 0 && n <= o.Walk[len(o.Walk)-1].Off {
			o.Views = append(o.Views, fmt.Sprintf("NextOffset %d is not beyond the last live offset %d", n, o.Walk[len(o.Walk)-1].Off))
		} else if !light {
			w.Observe(drv.ObsAll &^ drv.ObsTrim)
			for _, d := range w.Dis {
				if strings.HasPrefix(d.Msg, "pre-epoch") {
					continue
				}
				o.Views = append(o.Views, d.Msg)
			}
		}
	}
	if p := safely(func() { err = lg.Close() }); p != "" || err != nil {
		o.Views = append(o.Views, fmt.Sprintf("Close after recovery failed: %v %s", err, p))
		return o
	}
	cont := ""
	if walkErr == "" && len(o.Views) == 0 {
		cont = continueAfterRecovery(dir, cfg, ro, o.Walk, n)
	}
	if light {
		// C06, one step further: what is acknowledged after the recovery must survive the next
		// recovery as well (no further loss: everything below was fsynced by Sync and Close)
		if walkErr == "" {
			o.Durable = cont
		}
		if walkErr == "" && o.Durable == "" {
			p := safely(func() {
				ao := cfg.Options()
				ao.Rollover = 1 << 20
				lg, err := klevdb.Open(dir, ao)
				if err != nil {
					o.Durable = "Open after recovery failed: " + err.Error()
					return
				}
				msg := klevdb.Message{Time: time.UnixMicro(drv.BaseT + 500).UTC(), Key: []byte("a"), Value: []byte("acked")}
				if _, err := lg.Publish([]klevdb.Message{msg}); err != nil {
					o.Durable = "Publish after recovery failed: " + err.Error()
				}
				w2, err := lg.Sync()
				if err != nil {
					o.Durable = "Sync after recovery failed: " + err.Error()
				}
				if err := lg.Close(); err != nil && o.Durable == "" {
					o.Durable = "Close after recovery failed: " + err.Error()
				}
				if o.Durable != "" {
					return
				}
				lg, err = klevdb.Open(dir, ro)
				if err != nil {
					o.Durable = "second Open(Recover) failed: " + err.Error()
					return
				}
				defer lg.Close()
				got, gerr := lg.Get(n)
				n2, _ := lg.NextOffset()
				if gerr != nil || string(got.Value) != "acked" || n2 < w2 {
					o.Durable = fmt.Sprintf("a message published and Sync'd (offset %d, Sync returned %d) after the recovery is gone after the next recovery: Get = (%q, %v), NextOffset %d", n, w2, got.Value, gerr, n2)
				}
			})
			if p != "" {
				o.Durable = "panic after recovery: " + p
			}
		}
		return o
	}
	// recovering again changes nothing
	d1 := readAll(dir)
	p = safely(func() {
		lg, err = klevdb.Open(dir, ro)
		if err == nil {
			err = lg.Close()
		}
	})
	if p != "" || err != nil {
		o.Idem = fmt.Sprintf("second Open(Recover) failed: %v %s", err, p)
		return o
	}
	d2 := readAll(dir)
	if diff := diffFiles(d1, d2); diff != "" {
		o.Idem = "second recovery changed " + diff
	}
	// the closed, recovered directory: every index file matches its log
	w.Dis = nil
	w.L = nil
	w.CheckIndexFiles()
	for _, d := range w.Dis {
		o.Views = append(o.Views, "after recovery and Close: "+d.Msg)
	}
	// the log can be appended to and still passes Check
	p = safely(func() {
		// (no rollover here: Check only looks at the newest segment, the appended message must land in the recovered one)
		ao := cfg.Options()
		ao.Rollover = 1 << 20
		lg, err = klevdb.Open(dir, ao)
		if err != nil {
			o.Append = "Open after recovery failed: " + err.Error()
			return
		}
		msg := klevdb.Message{Time: time.UnixMicro(drv.BaseT + 500).UTC(), Key: []byte("a"), Value: []byte("appended")}
		next, err := lg.Publish([]klevdb.Message{msg})
		if err != nil {
			o.Append = "Publish after recovery failed: " + err.Error()
		} else if next != n+1 {
			o.Append = fmt.Sprintf("Publish after recovery returned %d, NextOffset was %d", next, n)
		}
		if err := lg.Close(); err != nil && o.Append == "" {
			o.Append = "Close after append failed: " + err.Error()
		}
		if o.Append != "" {
			return
		}
		if err := klevdb.Check(dir, cfg.Options()); err != nil {
			o.Append = "Check after recovery + append failed: " + err.Error()
			return
		}
		oc := cfg.Options()
		oc.Check = true
		lg, err = klevdb.Open(dir, oc)
		if err != nil {
			o.Append = "Open(Check) after recovery + append failed: " + err.Error()
			return
		}
		got, gerr := lg.Get(n)
		if gerr != nil || string(got.Value) != "appended" {
			o.Append = fmt.Sprintf("the appended message is not there: Get(%d) = (%q, %v)", n, got.Value, gerr)
		}
		// and everything recovered before is still there
		var again []model.Msg
		off := klevdb.OffsetOldest
		for i := 0; i < 100; i++ {
			next, msgs, err := safeConsume(lg, off)
			if err != nil {
				o.Append = fmt.Sprintf("scan after append failed: %v", err)
				break
			}
			for _, m := range msgs {
				again = append(again, model.Msg{Off: m.Offset, T: m.Time.UnixMicro(), Key: m.Key, Val: m.Value})
			}
			if len(msgs) == 0 {
				break
			}
			off = next
		}
		if o.Append == "" && walkErr == "" {
			if len(again) != len(o.Walk)+1 {
				o.Append = fmt.Sprintf("scan after append shows %d messages, want %d", len(again), len(o.Walk)+1)
			} else {
				for i := range o.Walk {
					if !again[i].Same(o.Walk[i]) {
						o.Append = fmt.Sprintf("scan after append: message %d changed", i)
						break
					}
				}
			}
		}
		_ = lg.Close()
	})
	if p != "" {
		o.Append = "panic while appending after recovery: " + p
	}
	if o.Append == "" {
		o.Append = cont
	}
	if o.Append != "" || walkErr != "" || len(o.Views) > 0 {
		return o // already reported: the views of this image disagree or it cannot be appended to
	}
	// the same through the recovering handle itself: nothing else has opened (and thereby
	// repaired) the directory between the crash and the append
	if err := im.materialise(dir); err != nil {
		panic(err)
	}
	vrand.Reset()
	p = safely(func() {
		fo := ro
		fo.Rollover = 1 << 20
		fo.Check = true // with both set, Recover decides (documented: recovers directly)
		lg, err := klevdb.Open(dir, fo)
		if err != nil {
			o.Append = "Open(Recover + Check) of a second copy of the image failed: " + err.Error()
			return
		}
		msg := klevdb.Message{Time: time.UnixMicro(drv.BaseT + 500).UTC(), Key: []byte("a"), Value: []byte("first")}
		next, err := lg.Publish([]klevdb.Message{msg})
		if err != nil {
			o.Append = "Publish on the recovering handle failed: " + err.Error()
		} else if next != n+1 {
			o.Append = fmt.Sprintf("Publish on the recovering handle returned %d, NextOffset was %d", next, n)
		}
		if st, err := lg.Stat(); o.Append == "" && (err != nil || st.Messages != len(o.Walk)+1) {
			o.Append = fmt.Sprintf("after a publish on the recovering handle Stat = (%d messages, %v), want %d", st.Messages, err, len(o.Walk)+1)
		}
		if err := lg.Close(); err != nil && o.Append == "" {
			o.Append = "Close of the recovering handle after an append failed: " + err.Error()
		}
		if o.Append != "" {
			return
		}
		if err := klevdb.Check(dir, cfg.Options()); err != nil {
			o.Append = "Check after an append on the recovering handle failed: " + err.Error()
			return
		}
		lg, err = klevdb.Open(dir, cfg.Options())
		if err != nil {
			o.Append = "Open after an append on the recovering handle failed: " + err.Error()
			return
		}
		defer lg.Close()
		got, gerr := lg.Get(n)
		n2, _ := lg.NextOffset()
		if gerr != nil || string(got.Value) != "first" || n2 != n+1 {
			o.Append = fmt.Sprintf("the message appended on the recovering handle is gone after a reopen: Get(%d) = (%q, %v), NextOffset %d", n, got.Value, gerr, n2)
		}
	})
	if p != "" {
		o.Append = "panic while appending on the recovering handle: " + p
	}
	if o.Append != "" {
		return o
	}
	// and once more from scratch, recovering with eager migration to the other format version in
	// the same Open: the recovery has to come first, the result is the same log
	if err := im.materialise(dir); err != nil {
		panic(err)
	}
	vrand.Reset()
	p = safely(func() {
		mo := ro
		other := klevdb.V2
		if cfg.Ver == 2 {
			other = klevdb.V1
		}
		mo.Version.NewSegmentsVersion = other
		mo.Version.EagerVersionMigrate = true
		lg, err := klevdb.Open(dir, mo)
		if err != nil {
			o.Append = "Open(Recover + EagerVersionMigrate to the other version) failed: " + err.Error()
			return
		}
		defer lg.Close()
		var again []model.Msg
		off := klevdb.OffsetOldest
		for i := 0; i < 100; i++ {
			next, msgs, err := safeConsume(lg, off)
			if err != nil {
				o.Append = fmt.Sprintf("after Open(Recover + EagerVersionMigrate) the scan failed: %v", err)
				return
			}
			for _, m := range msgs {
				again = append(again, model.Msg{Off: m.Offset, T: m.Time.UnixMicro(), Key: m.Key, Val: m.Value})
			}
			if len(msgs) == 0 {
				break
			}
			off = next
		}
		n2, _ := lg.NextOffset()
		if len(again) != len(o.Walk) || n2 != n {
			o.Append = fmt.Sprintf("Open(Recover + EagerVersionMigrate) shows %d messages and NextOffset %d, plain recovery %d and %d", len(again), n2, len(o.Walk), n)
			return
		}
		for i := range again {
			if !again[i].Same(o.Walk[i]) {
				o.Append = fmt.Sprintf("Open(Recover + EagerVersionMigrate): message %d differs from what plain recovery shows", i)
				return
			}
		}
	})
	if p != "" {
		o.Append = "panic in Open(Recover + EagerVersionMigrate): " + p
	}
	return o
}

// continueAfterRecovery: the life of the log goes on after a recovery. On a copy of the
// recovered, closed directory the log is opened with the family's own (small) rollover,
// three single messages are published - the first may still land in the recovered head,
// the later ones seal it -, Sync, Close, Open(Recover) once more (which only looks at the
// new head) and a cursor walk: everything the recovery showed plus the three messages must
// be there. Nothing is lost in between (Sync and Close), so this holds under C05 and C06
// alike. What it reaches: a recovered head that reads fine but is left in a state
// (index file, temporaries) that only hurts once it is no longer the newest segment.
func continueAfterRecovery(src string, cfg drv.Cfg, ro klevdb.Options, walk []model.Msg, n int64) (problem string) {
	dir := src + ".cont"
	_ = os.RemoveAll(dir)
	if err := drv.CopyDir(src, dir); err != nil {
		panic(err)
	}
	defer os.RemoveAll(dir)
	p := safely(func() {
		lg, err := klevdb.Open(dir, cfg.Options())
		if err != nil {
			problem = "Open after recovery failed: " + err.Error()
			return
		}
		for i := 0; i < 3; i++ {
			msg := klevdb.Message{Time: time.UnixMicro(drv.BaseT + 600 + int64(i)).UTC(), Key: []byte("a"), Value: []byte(fmt.Sprintf("cont%d", i))}
			if next, err := lg.Publish([]klevdb.Message{msg}); err != nil || next != n+int64(i)+1 {
				problem = fmt.Sprintf("Publish %d after recovery = (%d, %v), want %d", i, next, err, n+int64(i)+1)
				break
			}
		}
		if w, err := lg.Sync(); problem == "" && (err != nil || w != n+3) {
			problem = fmt.Sprintf("Sync after recovery and three publishes = (%d, %v), want %d", w, err, n+3)
		}
		if err := lg.Close(); err != nil && problem == "" {
			problem = "Close after recovery and three publishes failed: " + err.Error()
		}
		if problem != "" {
			return
		}
		lg, err = klevdb.Open(dir, ro)
		if err != nil {
			problem = "Open(Recover) after recovery, three publishes (rollover), Sync and Close failed: " + err.Error()
			return
		}
		defer lg.Close()
		var again []model.Msg
		off := klevdb.OffsetOldest
		for i := 0; i < 100; i++ {
			next, msgs, err := safeConsume(lg, off)
			if err != nil {
				problem = fmt.Sprintf("after recovery, three publishes (rollover), Sync, Close and reopen: Consume(%d) failed: %v", off, err)
				return
			}
			for _, m := range msgs {
				again = append(again, model.Msg{Off: m.Offset, T: m.Time.UnixMicro(), Key: m.Key, Val: m.Value})
			}
			if len(msgs) == 0 {
				break
			}
			off = next
		}
		if len(again) != len(walk)+3 {
			problem = fmt.Sprintf("after recovery, three publishes (rollover), Sync, Close and reopen the log shows offsets %v, want %v plus %d..%d", offs(again), offs(walk), n, n+2)
			return
		}
		for i := range walk {
			if !again[i].Same(walk[i]) {
				problem = fmt.Sprintf("after recovery, three publishes (rollover), Sync, Close and reopen message %d of the recovered log changed", walk[i].Off)
				return
			}
		}
		for i := 0; i < 3; i++ {
			m := again[len(walk)+i]
			if m.Off != n+int64(i) || string(m.Val) != fmt.Sprintf("cont%d", i) {
				problem = fmt.Sprintf("after recovery, three publishes (rollover), Sync, Close and reopen offset %d holds %q", m.Off, m.Val)
				return
			}
		}
		if n2, err := lg.NextOffset(); err != nil || n2 != n+3 {
			problem = fmt.Sprintf("after recovery, three publishes (rollover), Sync, Close and reopen NextOffset = (%d, %v), want %d", n2, err, n+3)
		}
	})
	if p != "" {
		problem = "panic while continuing after recovery: " + p
	}
	return problem
}

func safeConsume(l klevdb.Log, off int64) (next int64, msgs []klevdb.Message, err error) {
	defer func() {
		if r := recover(); r != nil {
			err = fmt.Errorf("panic: %v", r)
		}
	}()
	return l.Consume(off, 40)
}

func safely(f func()) (p string) {
	defer func() {
		if r := recover(); r != nil {
			p = fmt.Sprint(r)
		}
	}()
	f()
	return ""
}

func readAll(dir string) map[string][]byte {
	out := map[string][]byte{}
	ents, _ := os.ReadDir(dir)
	for _, e := range ents {
		if e.Name() == ".lock" {
			continue
		}
		b, _ := os.ReadFile(filepath.Join(dir, e.Name()))
		out[e.Name()] = b
	}
	return out
}

func diffFiles(a, b map[string][]byte) string {
	var d []string
	for n, x := range a {
		y, ok := b[n]
		if !ok {
			d = append(d, shortName(n)+" (removed)")
		} else if !bytes.Equal(x, y) {
			d = append(d, fmt.Sprintf("%s (%d -> %d bytes)", shortName(n), len(x), len(y)))
		}
	}
	for n := range b {
		if _, ok := a[n]; !ok {
			d = append(d, shortName(n)+" (created)")
		}
	}
	sort.Strings(d)
	return strings.Join(d, ", ")
}

// ------------------------------------------------------------ judges

// allowed returns the live sequences the properties admit for a crash inside
// the given call.
func allowed(call string, before, after *model.Log) [][]model.Msg {
	switch call {
	case "Publish":
		var out [][]model.Msg
		base := before.Live
		var batch []model.Msg
		for _, m := range after.Live {
			if m.Off >= before.Next {
				batch = append(batch, m)
			}
		}
		for j := 0; j <= len(batch); j++ {
			out = append(out, append(append([]model.Msg{}, base...), batch[:j]...))
		}
		return out
	case "Delete":
		return [][]model.Msg{before.Live, after.Live}
	default:
		return [][]model.Msg{before.Live}
	}
}

func sameSeq(a, b []model.Msg) bool {
	if len(a) != len(b) {
		return false
	}
	for i := range a {
		if !a[i].Same(b[i]) {
			return false
		}
	}
	return true
}

func offs(ms []model.Msg) []int64 {
	out := make([]int64, len(ms))
	for i, m := range ms {
		out[i] = m.Off
	}
	return out
}

// judgeC05 returns the symptoms of one crash image.
func judgeC05(o *outcome, call string, before, after *model.Log) []string {
	if o.OpenErr != "" {
		return []string{"Open(Recover) failed: " + o.OpenErr}
	}
	var out []string
	ok := false
	for _, s := range allowed(call, before, after) {
		if sameSeq(o.Walk, s) {
			ok = true
		}
	}
	if !ok && !hasWalkError(o) {
		var al []string
		for _, s := range allowed(call, before, after) {
			al = append(al, fmt.Sprint(offs(s)))
		}
		out = append(out, fmt.Sprintf("recovered log shows offsets %v, allowed: %s", offs(o.Walk), strings.Join(dedupe(al), " or ")))
	}
	if o.Next < before.Next {
		out = append(out, fmt.Sprintf("NextOffset moved backwards: acknowledged %d, recovered %d", before.Next, o.Next))
	}
	for _, v := range o.Views {
		out = append(out, "views disagree: "+v)
	}
	if o.Idem != "" {
		out = append(out, o.Idem)
	}
	if o.Append != "" {
		out = append(out, o.Append)
	}
	return out
}

func hasWalkError(o *outcome) bool {
	for _, v := range o.Views {
		if strings.HasPrefix(v, "Consume(") {
			return true
		}
	}
	return false
}

func dedupe(s []string) []string {
	seen := map[string]bool{}
	var out []string
	for _, x := range s {
		if !seen[x] {
			seen[x] = true
			out = append(out, x)
		}
	}
	return out
}

// judgeC06 returns the symptoms of one power-loss image given the offset w
// acknowledged as durable.
func judgeC06(o *outcome, call string, before, after *model.Log, w int64) []string {
	if o.OpenErr != "" {
		return []string{"Open(Recover) failed: " + o.OpenErr}
	}
	if hasWalkError(o) {
		return []string{"reading the recovered log failed: " + o.Views[len(o.Views)-1]}
	}
	var out []string
	ok := false
	var why string
	for _, s := range allowed(call, before, after) {
		// Walk must be a prefix of s and hold every message of s below w
		if len(o.Walk) > len(s) || !sameSeq(o.Walk, s[:len(o.Walk)]) {
			continue
		}
		missing := false
		for _, m := range s[len(o.Walk):] {
			if m.Off < w {
				missing = true
				why = fmt.Sprintf("offset %d (< acknowledged %d) is missing", m.Off, w)
			}
		}
		if !missing {
			ok = true
		}
	}
	if !ok {
		if why == "" {
			why = "it is not a prefix of an acknowledged state"
		}
		out = append(out, fmt.Sprintf("after power loss the log shows offsets %v: %s (acknowledged live offsets %v)", offs(o.Walk), why, offs(before.Live)))
	}
	if o.Next < w {
		out = append(out, fmt.Sprintf("NextOffset %d is below the acknowledged durable offset %d", o.Next, w))
	}
	if o.Durable != "" {
		out = append(out, o.Durable)
	}
	return out
}

// ------------------------------------------------------------ worker

type Task = seqx.Task

var tornSet = []int{1, 27, 28, 29}

// tornLens returns the torn lengths tried for an append of n bytes.
func tornLens(n int, tier string) []int {
	var out []int
	if tier == "thorough" || n <= 48 {
		for b := 1; b < n; b++ {
			out = append(out, b)
		}
		return out
	}
	seen := map[int]bool{}
	for _, b := range append(append([]int{}, tornSet...), n-9, n-8, n-1) {
		if b >= 1 && b < n && !seen[b] {
			seen[b] = true
			out = append(out, b)
		}
	}
	sort.Ints(out)
	return out
}

// boundaryTorn reports whether a torn variant is at a header/trailer boundary of the record layout.
func boundaryTorn(variant string) bool {
	var b, n int
	if _, err := fmt.Sscanf(variant, "torn after %d of %d bytes", &b, &n); err != nil {
		return false
	}
	for _, x := range []int{1, 27, 28, 29, n - 9, n - 8, n - 1} {
		if b == x {
			return true
		}
	}
	return false
}

func isHeaderWrite(e vos.Event) bool {
	return e.Kind == vos.EvWrite && e.Off == 0 && len(e.Data) == 8 && e.Data[0] == 0xFF
}

func stepDesc(e vos.Event, fs *fsState) string {
	switch e.Kind {
	case vos.EvCreate:
		return "create " + fileClass(e.Path)
	case vos.EvWrite:
		name := "?"
		for n, id := range fs.names {
			if id == e.File {
				name = n
			}
		}
		if isHeaderWrite(e) {
			return "write header of " + fileClass(name)
		}
		return "append to " + fileClass(name)
	case vos.EvFsync:
		name := "?"
		for n, id := range fs.names {
			if id == e.File {
				name = n
			}
		}
		return "fsync " + fileClass(name)
	case vos.EvFsyncDir:
		return "fsync dir"
	case vos.EvRename:
		s := "rename " + fileClass(e.Path) + " -> " + fileClass(e.Path2)
		if baseOf(e.Path) != baseOf(e.Path2) {
			s += " (new base offset)"
		}
		if _, exists := fs.names[filepath.Base(e.Path2)]; exists {
			s += " (over existing)"
		}
		return s
	case vos.EvRemove:
		return "remove " + fileClass(e.Path)
	case vos.EvTrunc:
		return "truncate"
	default:
		return e.Kind.String()
	}
}

type counters struct {
	Images, Distinct, Torn, Depth2, Cuts, Points, Validated int
}

// Worker expands one state: for every enabled letter it records the journal
// of history+letter, validates the journal against the real directory,
// enumerates the images of the last letter and judges them.
func Worker(raw json.RawMessage) any {
	var t Task
	if err := json.Unmarshal(raw, &t); err != nil {
		return seqx.Result{HarnessErr: err.Error()}
	}
	f := seqx.Families[t.Fam]
	if f == nil {
		return seqx.Result{HarnessErr: "unknown family " + t.Fam}
	}
	res := seqx.Result{}
	var perr string
	p := safely(func() {
		// enabled letters
		w, _, err := record(f, t.Cfg, t.Hist, "")
		if err != nil {
			perr = err.Error()
			return
		}
		letters := f.Letters(w)
		_ = vos.Stop()
		w.Cleanup()
		for _, l := range letters {
			s, err := expand(f, t, l)
			if err != nil {
				perr = err.Error()
				return
			}
			res.Succs = append(res.Succs, s)
		}
	})
	if p != "" {
		perr = "panic in crashx worker: " + p
	}
	res.HarnessErr = perr
	if len(cache) > 200000 {
		cache = map[cacheKey]*outcome{}
	}
	return res
}

// record replays hist (+ letter) on a fresh world with journaling on.
func record(f *seqx.Family, cfg int, hist []string, letter string) (*drv.World, *recorder, error) {
	rec := &recorder{}
	w, err := drv.NewWorldWith(root(), f.Cfgs[cfg], func(w *drv.World) {
		rec.w = w
		w.Tracer = rec
		w.KeySet = f.KeySet
		vos.StartJournal(w.Dir)
	})
	if err != nil {
		_ = vos.Stop()
		return nil, nil, fmt.Errorf("fresh world: %w", err)
	}
	for _, l := range hist {
		if !w.Apply(l) {
			_ = vos.Stop()
			w.Cleanup()
			return nil, nil, fmt.Errorf("replay of %v diverged at %s: %v", hist, l, w.Dis)
		}
	}
	return w, rec, nil
}

func expand(f *seqx.Family, t Task, letter string) (seqx.Succ, error) {
	w, rec, err := record(f, t.Cfg, t.Hist, "")
	if err != nil {
		return seqx.Succ{}, err
	}
	defer w.Cleanup()
	e0 := vos.JournalLen()
	m0 := w.M.Clone()
	w.Dis = nil
	rec.Begin("letter " + letter)
	ok := w.Apply(letter)
	rec.End("letter", -1)
	s := seqx.Succ{Letter: letter, Fatal: !ok, Dis: w.Dis}
	for _, d := range w.Dis {
		if d.Fatal {
			s.Fatal = true
		}
	}
	journal := vos.Stop()
	cfg := w.Cfg
	// --- journal vs real directory (keeps the environment model honest)
	fs := newFS()
	for _, e := range journal {
		fs.apply(e)
	}
	real := readAll(w.Dir)
	if diff := diffFiles(map[string][]byte(fs.full()), real); diff != "" {
		return s, fmt.Errorf("journal and real directory disagree after %v + %s: %s", t.Hist, letter, diff)
	}
	cnt := counters{Validated: 1}
	if s.Fatal {
		return s, nil
	}
	// state key: the seqx key plus durability state (what C06 depends on)
	if w.L != nil {
		var dur []string
		for n, id := range fs.names {
			dur = append(dur, fmt.Sprintf("%s:%d", n, fs.files[id].synced))
		}
		sort.Strings(dur)
		s.Key = w.Key() + "|" + strings.Join(dur, ",") + fmt.Sprintf("|w=%d", rec.durableAt(len(journal)))
	}
	// --- enumerate the images of the last letter
	fs = newFS()
	for _, e := range journal[:e0] {
		fs.apply(e)
	}
	prop := os.Getenv("VERIF_CRASH_PROP")
	report := func(propID, call, step, variant, symptom, where string) {
		vk := variant
		if strings.HasPrefix(variant, "torn") {
			vk = "torn append"
		}
		sig := fmt.Sprintf("%s | %s | %s | %s", call, step, vk, seqx.Signature(symptom))
		s.Dis = append(s.Dis, drv.Dis{Props: []string{propID}, Msg: fmt.Sprintf("%s [crash in %s, %s, %s; %s]", symptom, call, step, variant, where), Sig: sig})
	}
	depth2 := (len(t.Hist) < 3 || t.Tier == "thorough") && os.Getenv("VERIF_NO_DEPTH2") == ""
	classes := map[string]int{}
	seenC05 := map[string]bool{}
	judge05 := func(im image, k int, step, variant string) {
		cnt.Images++
		call, before, after := rec.ctxAt(k, m0)
		vk := "after"
		if strings.HasPrefix(variant, "torn") {
			vk = "torn"
		}
		classes["cp:C05 "+call+" | "+step+" | "+vk]++
		o := evaluate(im, cfg, depth2)
		dg := im.digest() + call
		if seenC05[dg] {
			return
		}
		seenC05[dg] = true
		cnt.Distinct++
		where := fmt.Sprintf("event %d of the journal, image %s", k, im.describe())
		if os.Getenv("VERIF_DEBUG_IMG") != "" {
			fmt.Fprintf(os.Stderr, "IMG hist=%v letter=%s k=%d %s %s | %s -> open=%q walk=%v next=%d views=%v idem=%q append=%q\n", t.Hist, letter, k, step, variant, im.describe(), o.OpenErr, offs(o.Walk), o.Next, o.Views, o.Idem, o.Append)
		}
		for _, sym := range judgeC05(o, call, before, after) {
			report("C05", call, step, variant, sym, where)
		}
		if !depth2 || o.OpenErr != "" || len(o.RecJ) == 0 {
			return
		}
		if t.Tier != "thorough" && strings.HasPrefix(variant, "torn") && !boundaryTorn(variant) {
			return
		}
		// depth 2: crash points inside the recovery that follows
		rfs := newFS()
		for n, b := range im {
			id := o.RecIDs[n]
			rfs.files[id] = &fsFile{data: b, synced: len(b)}
			rfs.names[n] = id
		}
		for _, e := range o.RecJ {
			if e.Kind == vos.EvMark {
				continue
			}
			sd := "recovery: " + stepDesc(e, rfs)
			if t.Tier == "thorough" && e.Kind == vos.EvWrite && !isHeaderWrite(e) && len(e.Data) > 1 {
				for _, b := range tornLens(len(e.Data)+1000, "quick") {
					if b >= len(e.Data) || e.Off+int64(b) < 8 {
						continue
					}
					tf := cloneFS(rfs)
					te := e
					te.Data = e.Data[:b]
					tf.apply(te)
					judgeDepth2(tf.full(), cfg, call, before, after, step+" then "+sd, fmt.Sprintf("torn after %d of %d bytes", b, len(e.Data)), where, report, &cnt)
				}
			}
			rfs.apply(e)
			if e.Kind == vos.EvFsync || e.Kind == vos.EvFsyncDir {
				continue
			}
			judgeDepth2(rfs.full(), cfg, call, before, after, step+" then "+sd, "after the step", where, report, &cnt)
		}
	}
	seenC06 := map[string]bool{}
	// C06 at depth 2: the process dies at this point (page cache intact, as in C05), the log is
	// opened with Recover, and the power fails during or after that recovery: what had been
	// acknowledged as durable before the crash must survive that as well. The recovery runs
	// on the image with its journal recording; the durability state of the files is the real
	// one of the crash point (tf), carried through the recovery's own writes and fsyncs.
	seen06d2 := map[string]bool{}
	// (short histories only, also in the thorough tier: every image costs a journaled recovery
	// plus up to 64 further recoveries per recovery step)
	depth2C06 := os.Getenv("VERIF_NO_DEPTH2") == "" && (len(t.Hist) < 3 || (t.Tier == "thorough" && len(t.Hist) < 4))
	judge06d2 := func(tf *fsState, k int, step, variant string) {
		if !depth2C06 {
			return
		}
		im := tf.full()
		call, before, after := rec.ctxAt(k, m0)
		wd := rec.durableAt(k)
		if wd <= 0 {
			return // nothing acknowledged as durable yet
		}
		o := evaluate(im, cfg, true)
		if o.OpenErr != "" || len(o.RecJ) == 0 {
			return
		}
		rfs := newFS()
		for n, id := range tf.names {
			rid, ok := o.RecIDs[n]
			if !ok {
				continue
			}
			f := tf.files[id]
			rfs.files[rid] = &fsFile{data: append([]byte(nil), f.data...), synced: f.synced, writes: append([]int(nil), f.writes...)}
			rfs.names[n] = rid
		}
		for ri, e := range o.RecJ {
			if e.Kind == vos.EvMark {
				continue
			}
			sd := "recovery: " + stepDesc(e, rfs)
			rfs.apply(e)
			ims, descs := cutImages(rfs, 64)
			for ii, cim := range ims {
				cnt.Cuts++
				dg := fmt.Sprintf("%s|%s|%d", cim.digest(), call, wd)
				if seen06d2[dg] {
					continue
				}
				seen06d2[dg] = true
				co := evaluateX(cim, cfg, false, true)
				where := fmt.Sprintf("process crash after event %d of the journal (%s), then Open(Recover), power loss after event %d of the recovery; %s; acknowledged durable offset %d", k, variant, ri, descs[ii], wd)
				for _, sym := range judgeC06(co, call, before, after, wd) {
					report("C06", call, step+" then "+sd, "tail loss after recovery", sym, where)
				}
			}
		}
	}
	judge06 := func(k int, step string) {
		cnt.Points++
		call, before, after := rec.ctxAt(k-1, m0)
		wd := rec.durableAt(k)
		classes["cp:C06 "+call+" | "+step]++
		// files with unsynced bytes and their cut candidates
		type cutFile struct {
			name string
			cuts []int
		}
		var cf []cutFile
		var names []string
		for n := range fs.names {
			names = append(names, n)
		}
		sort.Strings(names)
		for _, n := range names {
			fl := fs.files[fs.names[n]]
			if fl.synced >= len(fl.data) {
				continue
			}
			cs := map[int]bool{fl.synced: true, len(fl.data): true}
			prev := fl.synced
			for i, end := range fl.writes {
				if end > fl.synced {
					cs[end] = true
					if i == len(fl.writes)-1 {
						start := prev
						if start < fl.synced {
							start = fl.synced
						}
						for _, b := range tornLens(end-start, t.Tier) {
							cs[start+b] = true
						}
					}
				}
				prev = end
			}
			var cuts []int
			for c := range cs {
				if c > 0 && c < 8 {
					continue // file headers are atomic
				}
				cuts = append(cuts, c)
			}
			sort.Ints(cuts)
			cf = append(cf, cutFile{n, cuts})
		}
		total := 1
		for _, c := range cf {
			total *= len(c.cuts)
		}
		comboCap := 4000
		if t.Tier == "thorough" {
			comboCap = 40000
		}
		if total > comboCap {
			s.Dis = append(s.Dis, drv.Dis{Props: []string{"CAP"}, Msg: fmt.Sprintf("more than %d tail-loss combinations at one point (%d): the first %d were evaluated", comboCap, total, comboCap)})
			total = comboCap
		}
		base := fs.full()
		for combo := 0; combo < total; combo++ {
			im := image{}
			for n, b := range base {
				im[n] = b
			}
			x := combo
			var desc []string
			for _, c := range cf {
				cut := c.cuts[x%len(c.cuts)]
				x /= len(c.cuts)
				im[c.name] = base[c.name][:cut]
				if cut != len(base[c.name]) {
					desc = append(desc, fmt.Sprintf("%s cut to %d of %d", shortName(c.name), cut, len(base[c.name])))
				}
			}
			cnt.Cuts++
			dg := fmt.Sprintf("%s|%s|%d", im.digest(), call, wd)
			if seenC06[dg] {
				continue
			}
			seenC06[dg] = true
			o := evaluateX(im, cfg, false, true)
			variant := "nothing lost"
			if len(desc) > 0 {
				variant = "tail loss"
			}
			where := fmt.Sprintf("after event %d of the journal; %s; acknowledged durable offset %d", k, strings.Join(desc, ", "), wd)
			for _, sym := range judgeC06(o, call, before, after, wd) {
				report("C06", call, step, variant, sym, where)
			}
		}
	}
	do05 := prop != "C06"
	do06 := prop != "C05"
	rebasedIn := ""
	for k := e0; k < len(journal); k++ {
		e := journal[k]
		if e.Kind == vos.EvMark {
			continue
		}
		step := stepDesc(e, fs)
		// steps that follow the rename of a rewritten segment to a new base offset within the same call
		callNow, cb, _ := rec.ctxAt(k, m0)
		callID := fmt.Sprintf("%s@%p", callNow, cb)
		if rebasedIn != "" && rebasedIn == callID && e.Kind == vos.EvRemove {
			step += " [after the rename to a new base offset]"
		}
		if e.Kind == vos.EvRename && strings.Contains(step, "(new base offset)") {
			rebasedIn = callID
		}
		if do05 && e.Kind == vos.EvWrite && !isHeaderWrite(e) && len(e.Data) > 1 {
			for _, b := range tornLens(len(e.Data), t.Tier) {
				if e.Off+int64(b) < 8 {
					continue // the first 8 bytes of a file (V2 header; V1: the offset field that identifies the version) are atomic
				}
				tf := cloneFS(fs)
				te := e
				te.Data = e.Data[:b]
				tf.apply(te)
				cnt.Torn++
				judge05(tf.full(), k, step, fmt.Sprintf("torn after %d of %d bytes", b, len(e.Data)))
			}
		}
		if do06 && depth2C06 && e.Kind == vos.EvWrite && !isHeaderWrite(e) && len(e.Data) > 1 {
			for _, b := range tornLens(len(e.Data), "quick") {
				variant := fmt.Sprintf("torn after %d of %d bytes", b, len(e.Data))
				if e.Off+int64(b) < 8 || (t.Tier != "thorough" && !boundaryTorn(variant)) {
					continue
				}
				tf := cloneFS(fs)
				te := e
				te.Data = e.Data[:b]
				tf.apply(te)
				judge06d2(tf, k, step, variant)
			}
		}
		fs.apply(e)
		if do05 && e.Kind != vos.EvFsync && e.Kind != vos.EvFsyncDir {
			judge05(fs.full(), k, step, "after the step")
		}
		if do06 {
			judge06(k+1, step)
			if depth2C06 && e.Kind != vos.EvFsync && e.Kind != vos.EvFsyncDir {
				judge06d2(fs, k, step, "after the step")
			}
		}
	}
	s.Calls = cnt.Images
	s.Extra = map[string]int{"images": cnt.Images, "distinct_images": cnt.Distinct, "torn_variants": cnt.Torn, "depth2_images": cnt.Depth2,
		"tail_loss_images": cnt.Cuts, "power_loss_points": cnt.Points, "journals_validated": cnt.Validated, "cache_hits": cacheHits, "cache_misses": cacheMiss}
	cacheHits, cacheMiss = 0, 0
	for k, v := range classes {
		s.Extra[k] = v
	}
	return s, nil
}

// cutImages enumerates the tail-loss images of a file-system state: every file with unsynced
// bytes cut to its fsynced length, to an append boundary since, or not at all (never inside
// the 8-byte file header); every combination, at most capN.
func cutImages(fs *fsState, capN int) (ims []image, descs []string) {
	type cutFile struct {
		name string
		cuts []int
	}
	var cf []cutFile
	var names []string
	for n := range fs.names {
		names = append(names, n)
	}
	sort.Strings(names)
	for _, n := range names {
		fl := fs.files[fs.names[n]]
		if fl == nil || fl.synced >= len(fl.data) {
			continue
		}
		cs := map[int]bool{fl.synced: true, len(fl.data): true}
		for _, end := range fl.writes {
			if end > fl.synced && end <= len(fl.data) {
				cs[end] = true
			}
		}
		var cuts []int
		for c := range cs {
			if c > 0 && c < 8 {
				continue
			}
			cuts = append(cuts, c)
		}
		sort.Ints(cuts)
		cf = append(cf, cutFile{n, cuts})
	}
	total := 1
	for _, c := range cf {
		total *= len(c.cuts)
	}
	if total > capN {
		total = capN
	}
	base := fs.full()
	for combo := 0; combo < total; combo++ {
		im := image{}
		for n, b := range base {
			im[n] = b
		}
		x := combo
		var desc []string
		for _, c := range cf {
			cut := c.cuts[x%len(c.cuts)]
			x /= len(c.cuts)
			im[c.name] = base[c.name][:cut]
			if cut != len(base[c.name]) {
				desc = append(desc, fmt.Sprintf("%s cut to %d of %d", shortName(c.name), cut, len(base[c.name])))
			}
		}
		ims = append(ims, im)
		descs = append(descs, strings.Join(desc, ", "))
	}
	return
}

func judgeDepth2(im image, cfg drv.Cfg, call string, before, after *model.Log, step, variant, where string, report func(propID, call, step, variant, symptom, where string), cnt *counters) {
	cnt.Depth2++
	o := evaluate(im, cfg, false)
	for _, sym := range judgeC05(o, call, before, after) {
		report("C05", call, step, variant, sym, where+"; second image "+im.describe())
	}
}

func cloneFS(s *fsState) *fsState {
	c := newFS()
	for n, id := range s.names {
		c.names[n] = id
	}
	for id, f := range s.files {
		c.files[id] = &fsFile{data: append([]byte(nil), f.data...), synced: f.synced, writes: append([]int(nil), f.writes...)}
	}
	return c
}
