// Package model is the reference model of a klevdb log: a list of live
// messages and the next offset. Deliberately boring.
package model

import (
	"bytes"
	"fmt"
	"hash/crc32"
)

type Msg struct {
	Off int64
	T   int64 // unix microseconds
	Key []byte
	Val []byte
}

func (m Msg) String() string {
	return fmt.Sprintf("{%d t=%d k=%s v=%s}", m.Off, m.T, short(m.Key), short(m.Val))
}

// short quotes a byte string; long ones are abbreviated to length and checksum
// (observations print every message they see: a 64 MiB value must not become a 256 MiB string).
func short(b []byte) string {
	if len(b) <= 256 {
		return fmt.Sprintf("%q", b)
	}
	return fmt.Sprintf("<%d bytes crc %08x>", len(b), crc32.ChecksumIEEE(b))
}

// Same compares all fields; nil and empty byte slices are the same (the
// format cannot tell them apart).
func (m Msg) Same(o Msg) bool {
	return m.Off == o.Off && m.T == o.T && bytes.Equal(m.Key, o.Key) && bytes.Equal(m.Val, o.Val)
}

type Log struct {
	Live     []Msg
	Next     int64
	Monotone bool  // times of all messages ever published were non-decreasing
	LastT    int64 // time of the last published message
	Any      bool  // anything ever published
}

func New() *Log { return &Log{Monotone: true} }

func (l *Log) Clone() *Log {
	c := *l
	c.Live = append([]Msg(nil), l.Live...)
	return &c
}

// Publish assigns offsets Next.. to the batch and returns the new Next.
func (l *Log) Publish(batch []Msg) int64 {
	for _, m := range batch {
		m.Off = l.Next
		if l.Any && m.T < l.LastT {
			l.Monotone = false
		}
		l.Any = true
		l.LastT = m.T
		l.Live = append(l.Live, m)
		l.Next++
	}
	return l.Next
}

// Index returns the position of offset in Live, or -1.
func (l *Log) Index(off int64) int {
	lo, hi := 0, len(l.Live)
	for lo < hi {
		mid := (lo + hi) / 2
		if l.Live[mid].Off < off {
			lo = mid + 1
		} else {
			hi = mid
		}
	}
	if lo < len(l.Live) && l.Live[lo].Off == off {
		return lo
	}
	return -1
}

// FirstGE returns the position of the first live message with offset >= off
// (len(Live) if none).
func (l *Log) FirstGE(off int64) int {
	lo, hi := 0, len(l.Live)
	for lo < hi {
		mid := (lo + hi) / 2
		if l.Live[mid].Off < off {
			lo = mid + 1
		} else {
			hi = mid
		}
	}
	return lo
}

// Remove deletes the given offsets (which must be live) from the model.
func (l *Log) Remove(offs map[int64]bool) {
	out := l.Live[:0:0]
	for _, m := range l.Live {
		if !offs[m.Off] {
			out = append(out, m)
		}
	}
	l.Live = out
}

// LastByKey returns the last live message with this key.
func (l *Log) LastByKey(key []byte) (Msg, bool) {
	for i := len(l.Live) - 1; i >= 0; i-- {
		if bytes.Equal(l.Live[i].Key, key) {
			return l.Live[i], true
		}
	}
	return Msg{}, false
}

// FirstByTime returns the first live message with time >= t.
func (l *Log) FirstByTime(t int64) (Msg, bool) {
	for _, m := range l.Live {
		if m.T >= t {
			return m, true
		}
	}
	return Msg{}, false
}

const (
	OffsetOldest  int64 = -2
	OffsetNewest  int64 = -1
	OffsetInvalid int64 = -3
)

// CheckConsume judges a nil-error Consume(o, max) -> (next, msgs) against the
// model: the result-driven rule of DESIGN.md 2.3. It returns "" if legal.
func (l *Log) CheckConsume(o, max, next int64, msgs []Msg) string {
	if o == OffsetNewest {
		if len(msgs) != 0 || next != l.Next {
			return fmt.Sprintf("Consume(Newest) = (%d, %d msgs), want (%d, none)", next, len(msgs), l.Next)
		}
		return ""
	}
	start := o
	if o < 0 {
		// OffsetOldest, and any other negative value, is "not below" every offset
		start = 0
	}
	if start > l.Next {
		return fmt.Sprintf("Consume(%d) succeeded beyond NextOffset %d", o, l.Next)
	}
	i := l.FirstGE(start)
	if len(msgs) == 0 {
		// nothing returned: never step over a live message, end at Next when caught up
		if next < start || next > l.Next {
			return fmt.Sprintf("Consume(%d) = (%d, none): next outside [%d,%d]", o, next, start, l.Next)
		}
		if i < len(l.Live) && l.Live[i].Off < next {
			return fmt.Sprintf("Consume(%d) = (%d, none) steps over live offset %d", o, next, l.Live[i].Off)
		}
		if i == len(l.Live) && next != l.Next {
			return fmt.Sprintf("Consume(%d) = (%d, none): caught up but next != NextOffset %d", o, next, l.Next)
		}
		return ""
	}
	if int64(len(msgs)) > max {
		return fmt.Sprintf("Consume(%d,%d) returned %d messages", o, max, len(msgs))
	}
	if i+len(msgs) > len(l.Live) {
		return fmt.Sprintf("Consume(%d) returned %d messages, only %d live from there", o, len(msgs), len(l.Live)-i)
	}
	for j, m := range msgs {
		if !m.Same(l.Live[i+j]) {
			return fmt.Sprintf("Consume(%d) message %d = %v, want %v", o, j, m, l.Live[i+j])
		}
	}
	if want := msgs[len(msgs)-1].Off + 1; next != want {
		return fmt.Sprintf("Consume(%d) next = %d, want last+1 = %d", o, next, want)
	}
	return ""
}

// CheckConsumeByKey judges a nil-error ConsumeByKey(key, o, max) result.
// Messages returned must be a contiguous run of the key's live messages
// starting at the first one with offset >= o; when nothing is returned the
// next offset must not step over a live message with that key.
func (l *Log) CheckConsumeByKey(key []byte, o, max, next int64, msgs []Msg) string {
	if o == OffsetNewest {
		if len(msgs) != 0 || next != l.Next {
			return fmt.Sprintf("ConsumeByKey(Newest) = (%d, %d msgs), want (%d, none)", next, len(msgs), l.Next)
		}
		return ""
	}
	start := o
	if o < 0 {
		start = 0
	}
	if start > l.Next {
		return "" // the property does not say what happens beyond NextOffset
	}
	var mine []Msg
	for _, m := range l.Live {
		if m.Off >= start && bytes.Equal(m.Key, key) {
			mine = append(mine, m)
		}
	}
	if len(msgs) == 0 {
		if next < start || next > l.Next {
			return fmt.Sprintf("ConsumeByKey(%q,%d) = (%d, none): next outside [%d,%d]", key, o, next, start, l.Next)
		}
		if len(mine) > 0 && mine[0].Off < next {
			return fmt.Sprintf("ConsumeByKey(%q,%d) = (%d, none) steps over live offset %d of that key", key, o, next, mine[0].Off)
		}
		return ""
	}
	if int64(len(msgs)) > max {
		return fmt.Sprintf("ConsumeByKey(%q,%d,%d) returned %d messages", key, o, max, len(msgs))
	}
	if len(msgs) > len(mine) {
		return fmt.Sprintf("ConsumeByKey(%q,%d) returned %d messages, only %d live with that key", key, o, len(msgs), len(mine))
	}
	for j, m := range msgs {
		if !m.Same(mine[j]) {
			return fmt.Sprintf("ConsumeByKey(%q,%d) message %d = %v, want %v", key, o, j, m, mine[j])
		}
	}
	if want := msgs[len(msgs)-1].Off + 1; next != want {
		return fmt.Sprintf("ConsumeByKey(%q,%d) next = %d, want last+1 = %d", key, o, next, want)
	}
	return ""
}
