package schedx

import (
	"encoding/json"
	"fmt"
	"os"
	"time"
)

// Task asks a worker to explore one program completely.
type Task struct {
	Prog     Program
	Bound    int    // preemption bound
	Budget   int    // maximum executions (0 = unlimited)
	Free     int    // free-running cross-check runs
	Announce string // file that receives "<program>\n<choices>" before every execution (race attribution)
	Judge    string // "lin" (C08) or "block" (C18)
	Deadline int64  // unix seconds after which bounds above MinBound are abandoned (0 = none)
	MinBound int    // bounds up to this one are always completed (subject to Budget only)
}

type Finding struct {
	Kind    string // "deadlock", "linearizability", "hang", "nondeterminism", "free-run", "close"
	Msg     string
	Choices []int
	Preempt int
}

type TaskResult struct {
	Prog         string
	Executions   int
	Pruned       int
	BoundDone    int // largest preemption bound completed (-1 none)
	Exhausted    bool
	TimedOut     bool
	MaxPoints    int
	Outcomes     int
	Findings     []Finding
	HarnessErr   string
	States       int
	SampleChoice []int
	Ops          int
	Restart      bool // the worker process has to be replaced after this task (a goroutine was left behind)
}

type seenKey struct {
	state  uint64
	thread int8
}

// Explore enumerates every schedule of the program up to the preemption
// bound (iterating the bound 0,1,..), pruning prefixes whose happens-before
// identity was already explored at an equal or smaller preemption cost.
func Explore(t Task, judge func(Program, *Execution) string) TaskResult {
	res := TaskResult{Prog: t.Prog.String(), BoundDone: -1}
	outcomes := map[string]bool{}
	capped := false
	start := time.Now()
	reportedKinds := map[string]int{}
	add := func(f Finding) {
		reportedKinds[f.Kind]++
		if reportedKinds[f.Kind] <= 3 {
			res.Findings = append(res.Findings, f)
		}
	}
	for bound := 0; bound <= t.Bound && !capped; bound++ {
		seen := map[seenKey]int{}
		complete := true
		var rec func(prefix []int, depth int)
		rec = func(prefix []int, depth int) {
			if capped {
				return
			}
			if t.Budget > 0 && res.Executions >= t.Budget {
				capped = true
				complete = false
				return
			}
			if t.Deadline > 0 && bound > t.MinBound && res.Executions%16 == 0 && time.Now().Unix() > t.Deadline {
				capped = true
				complete = false
				res.TimedOut = true
				return
			}
			if t.Announce != "" {
				_ = os.WriteFile(t.Announce, []byte(fmt.Sprintf("%s\n%v\n", t.Prog.String(), prefix)), 0o644)
			}
			x, err := Exec(t.Prog, prefix, false)
			if err != nil {
				res.HarnessErr = err.Error()
				capped = true
				return
			}
			res.Executions++
			res.Ops += x.Ops
			if len(x.Dec) > res.MaxPoints {
				res.MaxPoints = len(x.Dec)
			}
			if x.Diverged != "" {
				add(Finding{Kind: "nondeterminism", Msg: "replay diverged: " + x.Diverged, Choices: x.choices()})
				return
			}
			pre := preemptions(x)
			if x.Hung {
				add(Finding{Kind: "hang", Msg: "a thread did not reach its next scheduling point within the guard", Choices: x.choices(), Preempt: pre})
				capped = true
				return
			}
			if x.Deadlock != "" {
				add(Finding{Kind: "deadlock", Msg: "deadlock: " + x.Deadlock, Choices: x.choices(), Preempt: pre})
			} else {
				outcomes[x.Outcome()] = true
				if msg := judge(t.Prog, x); msg != "" {
					add(Finding{Kind: "linearizability", Msg: msg, Choices: x.choices(), Preempt: pre})
				}
				if x.CloseErr != "" {
					add(Finding{Kind: "close", Msg: "Close after the threads finished failed: " + x.CloseErr, Choices: x.choices(), Preempt: pre})
				}
			}
			// determinism self-check: every 64th execution is run again
			if res.Executions%64 == 1 {
				y, err := Exec(t.Prog, x.choices(), false)
				if err == nil && (y.Outcome() != x.Outcome() || len(y.Dec) != len(x.Dec)) {
					add(Finding{Kind: "nondeterminism", Msg: "the same schedule gave a different execution", Choices: x.choices()})
				}
			}
			if res.SampleChoice == nil && len(prefix) > 0 {
				res.SampleChoice = x.choices()
			}
			// cost[i] = preemptions before decision i
			cost := 0
			costs := make([]int, len(x.Dec))
			for i, d := range x.Dec {
				costs[i] = cost
				if d.CurStill && d.Chosen != 0 {
					cost++
				}
				k := seenKey{d.State, d.Enabled[d.Chosen]}
				if c, ok := seen[k]; !ok || costs[i] < c {
					if i >= len(prefix) {
						seen[k] = costs[i]
					}
				}
			}
			for i := len(prefix); i < len(x.Dec); i++ {
				d := x.Dec[i]
				for alt := 1; alt < d.N; alt++ {
					c := costs[i]
					if d.CurStill {
						c++
					}
					if c > bound {
						continue
					}
					k := seenKey{d.State, d.Enabled[alt]}
					if old, ok := seen[k]; ok && old <= costs[i] {
						res.Pruned++
						continue
					}
					seen[k] = costs[i]
					np := make([]int, i+1)
					for j := 0; j < i; j++ {
						np[j] = x.Dec[j].Chosen
					}
					np[i] = alt
					rec(np, depth+1)
					if capped {
						return
					}
				}
			}
		}
		rec(nil, 0)
		res.States = len(seen)
		if complete && !capped {
			res.BoundDone = bound
		}
		_ = start
	}
	res.Outcomes = len(outcomes)
	res.Exhausted = !capped
	// cross-check: the same program free-running must satisfy the same oracle
	for i := 0; i < t.Free; i++ {
		x, err := Exec(t.Prog, nil, true)
		if err != nil {
			res.HarnessErr = err.Error()
			break
		}
		if msg := judge(t.Prog, x); msg != "" {
			add(Finding{Kind: "free-run", Msg: "free-running execution: " + msg})
		}
	}
	return res
}

func (x *Execution) choices() []int {
	out := make([]int, len(x.Dec))
	for i, d := range x.Dec {
		out[i] = d.Chosen
	}
	return out
}

func preemptions(x *Execution) int {
	n := 0
	for _, d := range x.Dec {
		if d.CurStill && d.Chosen != 0 {
			n++
		}
	}
	return n
}

// Worker handles one program.
func Worker(raw json.RawMessage) any {
	var t Task
	if err := json.Unmarshal(raw, &t); err != nil {
		return TaskResult{HarnessErr: err.Error()}
	}
	judge := Linearizable
	switch t.Judge {
	case "block":
		judge = JudgeBlocking
	case "index":
		judge = JudgeIndexFiles
	case "durable":
		judge = JudgeDurable
	}
	res := Explore(t, judge)
	res.Restart = NeedRestart
	return res
}
