package schedx

// JudgeBlocking is the oracle of C18 (built with the blocking programs).
func JudgeBlocking(p Program, x *Execution) string { return "" }

// Programs18 returns the programs of C18.
func Programs18(tier string) []Program { return nil }
