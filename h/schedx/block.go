package schedx

import (
	"fmt"
	"sort"
	"strings"

	"verif/h/crashx"
	"verif/h/drv"
	"verif/h/model"
)

// ---- C18: blocking consume ----------------------------------------------

type blockInit struct {
	init []string
	next int64
}

var blockInits = []blockInit{
	{nil, 0},
	{[]string{"P:0/1/u", "P:1/1/u"}, 2}, // head full: the next publish rolls over
}

func cb(ctx int, off int64) string { return fmt.Sprintf("ConsumeBlocking:%d,%d,40", ctx, off) }
func cbk(ctx int, off int64) string {
	return fmt.Sprintf("ConsumeByKeyBlocking:%d,0,%d,40", ctx, off)
}

// Programs18 returns the programs of C18.
func Programs18(tier string) []Program {
	var ps []Program
	seen := map[string]bool{}
	add := func(init blockInit, threads ...[]string) {
		ts := make([]string, len(threads))
		for i, t := range threads {
			ts[i] = strings.Join(t, ";")
		}
		k := fmt.Sprintf("%v|%s", init.init, strings.Join(ts, "||"))
		if seen[k] {
			return
		}
		seen[k] = true
		ps = append(ps, Program{Name: fmt.Sprintf("b%03d", len(ps)), Cfg: cfgBoth, Init: init.init, Threads: threads, Block: true})
	}
	for _, in := range blockInits {
		offs := []int64{in.next, in.next + 1, -2, -1}
		if in.next > 0 {
			offs = append(offs, in.next-1)
		}
		for _, o := range offs {
			// nothing happens: a waiter at or beyond NextOffset stays parked, the others return at once
			add(in, []string{cb(0, o)})
			add(in, []string{cbk(0, o)})
			for _, pub := range []string{"Publish:1", "Publish:0", "Publish:2"} {
				add(in, []string{cb(0, o)}, []string{pub})
				add(in, []string{cbk(0, o)}, []string{pub})
			}
			add(in, []string{cb(0, o)}, []string{"Cancel:0"})
			add(in, []string{cb(0, o)}, []string{"Close"})
			add(in, []string{cb(0, o)}, []string{"Cancel:0"}, []string{"Publish:1"})
			add(in, []string{cb(0, o)}, []string{"Close"}, []string{"Publish:1"})
			add(in, []string{cb(0, o)}, []string{"Publish:1"}, []string{"Publish:1"})
			add(in, []string{cb(0, o)}, []string{"Publish:1", "Publish:1"})
			add(in, []string{cb(0, o)}, []string{"Publish:0"}, []string{"Publish:1"})
			// a publish that has returned before the call began: the call must not park
			add(in, []string{"Publish:1", cb(0, in.next)})
			add(in, []string{"Publish:1", cb(0, in.next)}, []string{cb(1, o)})
			for _, o2 := range offs {
				add(in, []string{cb(0, o)}, []string{cb(1, o2)}, []string{"Publish:1"})
				if tier == "thorough" {
					add(in, []string{cb(0, o)}, []string{cb(1, o2)}, []string{"Publish:1"}, []string{"Publish:1"})
					add(in, []string{cb(0, o)}, []string{cb(1, o2)}, []string{"Publish:1"}, []string{"Cancel:0"})
					add(in, []string{cb(0, o)}, []string{cb(1, o2)}, []string{"Publish:1"}, []string{"Close"})
				}
			}
		}
		add(in, []string{"Close"}, []string{"Close"})
		add(in, []string{"Close", cb(0, in.next)})
		add(in, []string{"Close", cb(0, -2)})
		add(in, []string{"Close"}, []string{"Publish:1", cb(0, in.next+1)})
		// two waiters, two publishers
		add(in, []string{cb(0, in.next)}, []string{cb(1, in.next+1)}, []string{"Publish:1"}, []string{"Publish:1"})
		add(in, []string{cb(0, in.next)}, []string{cb(1, in.next)}, []string{"Publish:1"}, []string{"Cancel:1"})
	}
	// the typed twin of the wrapper (OpenTBlocking, typed_blocking.go) is a second copy of the same
	// code: the same programs run against it (quick: those of at most three threads that start at or
	// beyond NextOffset or call Close; thorough: all)
	n := len(ps)
	for i := 0; i < n; i++ {
		p := ps[i]
		if tier != "thorough" && len(p.Threads) > 3 {
			continue
		}
		p.Typed = true
		p.Name = fmt.Sprintf("t%03d", i)
		ps = append(ps, p)
	}
	return ps
}

type bcall struct {
	t, c     int
	name     string
	op       string
	args     []int64
	inv, ret int
	res      Res
}

// JudgeBlocking is the oracle of C18.
func JudgeBlocking(p Program, x *Execution) string {
	if p.NotifyOnly {
		return judgeNotify(p, x)
	}
	var calls []bcall
	for ti := range p.Threads {
		for ci, name := range p.Threads[ti] {
			op, arg, _ := strings.Cut(name, ":")
			bc := bcall{t: ti, c: ci, name: name, op: op, args: ints(arg), inv: -1, ret: 1 << 30, res: x.Results[ti][ci]}
			for _, h := range x.Hist {
				if h.Thread == ti && h.Call == ci {
					if h.Ret {
						bc.ret = h.Step
					} else {
						bc.inv = h.Step
					}
				}
			}
			calls = append(calls, bc)
		}
	}
	for _, c := range calls {
		if c.res.Panic != "" {
			return fmt.Sprintf("T%d %s panicked: %s", c.t, c.name, c.res.Panic)
		}
	}
	initNext := x.Init.Next
	hasClose, anyWake := false, false
	for _, c := range calls {
		if c.op == "Close" {
			hasClose = true
		}
		if c.op == "Close" || c.op == "Publish" {
			anyWake = true
		}
	}
	// NextOffset once everything has finished
	finalNext := initNext
	for _, c := range calls {
		if c.op == "Publish" && c.res.Err == "ok" && c.res.Next > finalNext {
			finalNext = c.res.Next
		}
	}
	for _, c := range calls {
		if c.op != "ConsumeBlocking" && c.op != "ConsumeByKeyBlocking" {
			continue
		}
		ctx := int(c.args[0])
		off := c.args[1]
		if c.op == "ConsumeByKeyBlocking" {
			off = c.args[2]
		}
		cancelledBefore, cancelled := false, false
		for _, d := range calls {
			if d.op == "Cancel" && int(d.args[0]) == ctx {
				cancelled = true
				if d.inv < c.ret {
					cancelledBefore = true
				}
			}
		}
		parked := x.Parked != nil && x.Parked[c.t] && c.c == len(p.Threads[c.t])-1
		ever := x.EverParked != nil && x.EverParked[c.t]
		// offsets known to be below NextOffset when the call began
		below := off < 0 || off < initNext
		for _, d := range calls {
			if d.op == "Publish" && d.res.Err == "ok" && d.ret < c.inv && off < d.res.Next {
				below = true
			}
		}
		closedBefore := false
		for _, d := range calls {
			if d.op == "Close" && d.res.Err == "ok" && d.ret < c.inv {
				closedBefore = true
			}
		}
		what := fmt.Sprintf("T%d %s [%d,%d] -> %s", c.t, c.name, c.inv, c.ret, resString(c.res))
		switch {
		case parked:
			// (1) no lost wake-up: still parked when nothing else can run
			if off < finalNext || cancelled || hasClose {
				return fmt.Sprintf("lost wake-up: %s is still parked although NextOffset is %d (cancelled=%v, closed=%v)", what, finalNext, cancelled, hasClose)
			}
			if below {
				return fmt.Sprintf("%s parked although its offset was below NextOffset (or relative) when it began", what)
			}
			continue
		case below && !closedBefore:
			// (3) immediate
			if ever {
				return fmt.Sprintf("%s had to wait although its offset was below NextOffset (or relative) when it began", what)
			}
			if c.res.Err != "ok" && !(c.res.Err == "ctx" && cancelledBefore) && !(c.res.Err == "closed" && hasClose) {
				return fmt.Sprintf("%s failed although its offset was below NextOffset (or relative)", what)
			}
		}
		switch c.res.Err {
		default:
			// an error of the underlying Consume (e.g. woken by an empty publish while
			// still beyond NextOffset): judged with the results below; the wake-up
			// itself must have a reason like any other return
			fallthrough
		case "ok":
			// (2) never for nothing
			if !below && !anyWake {
				return fmt.Sprintf("%s returned although no Publish or Close happened", what)
			}
			wake := false
			for _, d := range calls {
				if (d.op == "Publish" || d.op == "Close") && d.inv < c.ret {
					wake = true
				}
			}
			if !below && !wake {
				return fmt.Sprintf("%s returned before any Publish or Close had begun", what)
			}
		case "ctx":
			if !cancelledBefore {
				return fmt.Sprintf("%s returned a context error although its context was not cancelled", what)
			}
		case "closed":
			closeBegan := false
			for _, d := range calls {
				if d.op == "Close" && d.inv < c.ret {
					closeBegan = true
				}
			}
			if !closeBegan {
				return fmt.Sprintf("%s failed as closed although Close had not begun", what)
			}
		}
		if closedBefore && !below && c.res.Err == "ok" {
			return fmt.Sprintf("%s started after Close had returned, at or beyond NextOffset, and did not fail", what)
		}
	}
	// Close twice: the second fails, nothing hangs
	nclose, okclose := 0, 0
	for _, c := range calls {
		if c.op == "Close" {
			nclose++
			if c.res.Err == "ok" {
				okclose++
			}
		}
	}
	if nclose > 0 && okclose != 1 {
		return fmt.Sprintf("%d of %d Close calls succeeded, want exactly 1", okclose, nclose)
	}
	// (4) what the calls returned: linearizable as plain Consume / Publish
	if !hasClose {
		q := Program{Cfg: p.Cfg, Init: p.Init}
		y := &Execution{Hist: x.Hist, Init: x.Init, Final: x.Final, FinalN: x.FinalN, FinalErr: x.FinalErr}
		for ti := range p.Threads {
			var names []string
			var rs []Res
			for ci, name := range p.Threads[ti] {
				r := x.Results[ti][ci]
				op, arg, _ := strings.Cut(name, ":")
				a := ints(arg)
				switch op {
				case "ConsumeBlocking":
					name = fmt.Sprintf("Consume:%d,%d", a[1], a[2])
				case "ConsumeByKeyBlocking":
					name = fmt.Sprintf("ConsumeByKey:%d,%d,%d", a[1], a[2], a[3])
				}
				if r.Err == "ctx" || r.Err == "closed" || op == "Cancel" {
					name = "Cancel:0" // no effect, always legal
					r = Res{Err: "ok"}
				}
				names = append(names, name)
				rs = append(rs, r)
			}
			q.Threads = append(q.Threads, names)
			y.Results = append(y.Results, rs)
		}
		if msg := Linearizable(q, y); msg != "" {
			return msg
		}
	}
	return ""
}

// ---- C18, notifier layer: pkg/notify alone with more waiters -------------------

func wt(ctx int, off int64) string { return fmt.Sprintf("Wait:%d,%d", ctx, off) }

// ProgramsNotify returns notifier-only programs: W waiters (offsets below,
// at, above the start offset), P setters (advancing and not), cancel, Close.
func ProgramsNotify(tier string) []Program {
	var ps []Program
	const start = 2
	add := func(threads ...[]string) {
		ps = append(ps, Program{Name: fmt.Sprintf("n%03d", len(ps)), NotifyOnly: true, Notify: start, Block: true, Threads: threads})
	}
	offs := []int64{1, 2, 3}
	maxW := 3
	if tier == "thorough" {
		maxW = 4
	}
	// every multiset of waiter offsets of size 1..maxW, against one and two setters
	var rec func(k int, from int, cur []int64)
	rec = func(k, from int, cur []int64) {
		if len(cur) > 0 {
			var ws [][]string
			for i, o := range cur {
				ws = append(ws, []string{wt(i, o)})
			}
			add(append(ws, []string{"Set:3"})...)
			add(append(ws, []string{"Set:4"})...)
			add(append(ws, []string{"Set:2"})...) // does not advance
			add(append(ws, []string{"Set:3"}, []string{"Set:4"})...)
			add(append(ws, []string{"Set:3", "Set:4"})...)
			add(append(ws, []string{"NClose"})...)
			add(append(ws, []string{"Set:3"}, []string{"NClose"})...)
			add(append(ws, []string{"Cancel:0"})...)
			add(append(ws, []string{"Set:3"}, []string{"Cancel:0"})...)
			if len(cur) <= 2 {
				add(ws...) // nothing happens
				add(append(ws, []string{"Set:4"}, []string{"Set:3"}, []string{"Cancel:0"})...)
			}
		}
		if len(cur) == k {
			return
		}
		for i := from; i < len(offs); i++ {
			rec(k, i, append(append([]int64{}, cur...), offs[i]))
		}
	}
	rec(maxW, 0, nil)
	add([]string{"NClose"}, []string{"NClose"})
	add([]string{"NClose", wt(0, 2)})
	add([]string{"NClose", wt(0, 1)})
	add([]string{"Set:3", wt(0, 2)}, []string{wt(1, 3)})
	// drop duplicates created by the recursion
	seen := map[string]bool{}
	var out []Program
	for _, p := range ps {
		ts := make([]string, len(p.Threads))
		for i, t := range p.Threads {
			ts[i] = strings.Join(t, ";")
		}
		k := strings.Join(ts, "||")
		if !seen[k] {
			seen[k] = true
			p.Name = fmt.Sprintf("n%03d", len(out))
			out = append(out, p)
		}
	}
	return out
}

func judgeNotify(p Program, x *Execution) string {
	var calls []bcall
	for ti := range p.Threads {
		for ci, name := range p.Threads[ti] {
			op, arg, _ := strings.Cut(name, ":")
			bc := bcall{t: ti, c: ci, name: name, op: op, args: ints(arg), inv: -1, ret: 1 << 30, res: x.Results[ti][ci]}
			for _, h := range x.Hist {
				if h.Thread == ti && h.Call == ci {
					if h.Ret {
						bc.ret = h.Step
					} else {
						bc.inv = h.Step
					}
				}
			}
			calls = append(calls, bc)
		}
	}
	final := p.Notify
	hasClose := false
	for _, c := range calls {
		if c.res.Panic != "" {
			return fmt.Sprintf("T%d %s panicked: %s", c.t, c.name, c.res.Panic)
		}
		if c.op == "Set" && c.args[0] > final {
			final = c.args[0]
		}
		if c.op == "NClose" {
			hasClose = true
		}
	}
	for _, c := range calls {
		if c.op != "Wait" {
			continue
		}
		ctx, off := int(c.args[0]), c.args[1]
		what := fmt.Sprintf("T%d %s [%d,%d] -> (%s)", c.t, c.name, c.inv, c.ret, c.res.Err)
		cancelled, cancelledBefore, wake, closeBegan, closedBefore := false, false, false, false, false
		below := off < p.Notify
		for _, d := range calls {
			switch d.op {
			case "Cancel":
				if int(d.args[0]) == ctx {
					cancelled = true
					if d.inv < c.ret {
						cancelledBefore = true
					}
				}
			case "Set":
				if d.inv < c.ret {
					wake = true
				}
				if d.ret < c.inv && off < d.args[0] {
					below = true
				}
			case "NClose":
				if d.inv < c.ret {
					wake, closeBegan = true, true
				}
				if d.ret < c.inv && d.res.Err == "ok" {
					closedBefore = true
				}
			}
		}
		parked := x.Parked != nil && x.Parked[c.t] && c.c == len(p.Threads[c.t])-1
		ever := x.EverParked != nil && x.EverParked[c.t]
		if parked {
			if off < final || cancelled || hasClose {
				return fmt.Sprintf("lost wake-up: %s is still parked although the offset is %d (cancelled=%v, closed=%v)", what, final, cancelled, hasClose)
			}
			if below {
				return fmt.Sprintf("%s parked although its offset was below the notifier's when it began", what)
			}
			continue
		}
		if below && ever {
			return fmt.Sprintf("%s had to wait although its offset was below the notifier's when it began", what)
		}
		switch c.res.Err {
		case "ok":
			if !below && !wake {
				return fmt.Sprintf("%s returned although no Set or Close had begun", what)
			}
			if closedBefore && !below {
				return fmt.Sprintf("%s started after Close had returned, at or beyond the offset, and did not fail", what)
			}
		case "ctx":
			if !cancelledBefore {
				return fmt.Sprintf("%s returned a context error although its context was not cancelled", what)
			}
		case "closed":
			if !closeBegan {
				return fmt.Sprintf("%s failed as closed although Close had not begun", what)
			}
		default:
			return fmt.Sprintf("%s failed", what)
		}
	}
	nclose, okclose := 0, 0
	for _, c := range calls {
		if c.op == "NClose" {
			nclose++
			if c.res.Err == "ok" {
				okclose++
			}
		}
	}
	if nclose > 0 && okclose != 1 {
		return fmt.Sprintf("%d of %d Close calls succeeded, want exactly 1", okclose, nclose)
	}
	return ""
}

// ---- C11 under concurrency ------------------------------------------------

// Programs11 returns programs whose threads make the first access to
// segments whose index files have been removed.
func Programs11() []Program {
	init := []string{"P:0/1/u", "P:1/1/u", "P:0/1/u", "P:1/1/u", "P:0/1/u", "RX:all"}
	calls := []string{"Get:0", "Get:1", "Get:2", "Consume:-2,40", "Consume:2,40", "GetByKey:0", "Stat", "Delete:0", "Delete:3", "GC:0"}
	var ps []Program
	for i, a := range calls {
		for _, b := range calls[i:] {
			ps = append(ps, Program{Name: fmt.Sprintf("x%03d", len(ps)), Cfg: cfgBoth, Init: init, Threads: [][]string{{a}, {b}}})
		}
	}
	for _, t := range [][]string{{"Get:0", "Get:1", "Consume:-2,40"}, {"Get:0", "Get:2", "Delete:1"}} {
		ps = append(ps, Program{Name: fmt.Sprintf("x%03d", len(ps)), Cfg: cfgBoth, Init: init, Threads: [][]string{{t[0]}, {t[1]}, {t[2]}}})
	}
	return ps
}

// JudgeIndexFiles is the oracle of the concurrent part of C11.
func JudgeIndexFiles(p Program, x *Execution) string {
	if len(x.IndexDis) > 0 {
		sort.Strings(x.IndexDis)
		return "after the concurrent calls and Close: " + x.IndexDis[0]
	}
	return Linearizable(p, x)
}

// ------------------------------------------------------------ C20 under concurrency

// Programs20: Log.Backup racing with publishes, deletes and GC. The result of a Backup call is
// what the backup directory opens to; linearizability then says it is the log as it was at
// one moment between the call and its return.
func Programs20(tier string) []Program {
	var ps []Program
	add := func(init []string, ts ...[]string) {
		ps = append(ps, Program{Name: fmt.Sprintf("k%03d", len(ps)), Cfg: cfgBoth, Init: init, Threads: ts})
	}
	for _, st := range inits {
		others := []string{"Publish:1", "Publish:2"}
		if st.next > 0 {
			others = append(others, "Delete:0", "Delete:1", "Delete:0,1", "GC:0", "Get:0")
		}
		if st.next > 4 {
			others = append(others, "Delete:4", "Delete:2", "Delete:3,4")
		}
		for _, o := range others {
			add(st.init, []string{"Backup:0"}, []string{o})
		}
		add(st.init, []string{"Backup:0"}, []string{"Backup:1"})
		add(st.init, []string{"Backup:0", "Backup:0"}, []string{"Publish:1"})
		add(st.init, []string{"Backup:0"}, []string{"Publish:1", "Publish:1"})
		if st.next > 0 {
			add(st.init, []string{"Backup:0"}, []string{"Publish:1"}, []string{"Delete:1"})
			if tier == "thorough" {
				add(st.init, []string{"Backup:0"}, []string{"Delete:0"}, []string{"Delete:1"})
				add(st.init, []string{"Backup:0"}, []string{"Backup:1"}, []string{"Delete:0"})
			}
		}
	}
	return ps
}

// ------------------------------------------------------------ C06 under concurrency

var cfgAS = drv.Cfg{Keys: true, Times: true, Rollover: roll2, Ver: 2, AutoSync: true}

// Programs06: Sync (and, under AutoSync, Publish) racing with publishes and a delete.
func Programs06(tier string) []Program {
	var ps []Program
	add := func(cfg drv.Cfg, init []string, ts ...[]string) {
		ps = append(ps, Program{Name: fmt.Sprintf("d%03d", len(ps)), Cfg: cfg, Init: init, Threads: ts, Durable: true})
	}
	for _, in := range [][]string{nil, {"P:0/1/u", "P:1/1/u", "S"}, {"P:0/1/u", "P:1/1/u", "P:0/1/u", "S"}} {
		add(cfgBoth, in, []string{"Sync"}, []string{"Publish:1"})
		add(cfgBoth, in, []string{"Sync"}, []string{"Publish:2"})
		add(cfgBoth, in, []string{"Sync"}, []string{"Publish:1", "Publish:1"})
		add(cfgBoth, in, []string{"Sync", "Sync"}, []string{"Publish:1"})
		add(cfgBoth, in, []string{"Publish:1", "Sync"}, []string{"Publish:1"})
		add(cfgBoth, in, []string{"Sync"}, []string{"Publish:1"}, []string{"Publish:1"})
		add(cfgAS, in, []string{"Publish:1"}, []string{"Publish:1"})
		add(cfgAS, in, []string{"Publish:1"}, []string{"Publish:2"})
		add(cfgAS, in, []string{"Publish:1"}, []string{"Sync"})
		if tier == "thorough" {
			add(cfgAS, in, []string{"Publish:1"}, []string{"Publish:1"}, []string{"Publish:1"})
			add(cfgBoth, in, []string{"Sync"}, []string{"Sync"}, []string{"Publish:1"})
		}
		if len(in) > 0 {
			add(cfgBoth, in, []string{"Sync"}, []string{"Delete:1"})
			add(cfgBoth, in, []string{"Publish:1", "Sync"}, []string{"Delete:0"})
			add(cfgAS, in, []string{"Publish:1"}, []string{"Delete:1"})
		}
	}
	return ps
}

// JudgeDurable is the oracle of the concurrent part of C06: at the moment a Sync (or a
// Publish on an AutoSync log) returned w, no tail-loss image of the directory may lose a
// message below w that is live at the end of the execution, show anything that was never
// there, or bring NextOffset below w.
func JudgeDurable(p Program, x *Execution) string {
	if msg := Linearizable(p, x); msg != "" {
		return msg
	}
	if x.Journal == nil {
		return ""
	}
	// everything that was ever live: the initial state plus what the publishes returned
	ever := map[int64]model.Msg{}
	for _, m := range x.Init.Live {
		ever[m.Off] = m
	}
	for _, m := range x.Final {
		ever[m.Off] = m
	}
	finalLive := map[int64]bool{}
	for _, m := range x.Final {
		finalLive[m.Off] = true
	}
	deletes := false
	for ti, t := range p.Threads {
		for ci, c := range t {
			if strings.HasPrefix(c, "Delete") {
				deletes = true
				for _, m := range x.Results[ti][ci].Msgs {
					ever[m.Off] = m
				}
			}
		}
	}
	for ti, t := range p.Threads {
		for ci, c := range t {
			r := x.Results[ti][ci]
			acked := r.Err == "ok" && (c == "Sync" || (p.Cfg.AutoSync && strings.HasPrefix(c, "Publish")))
			if !acked {
				continue
			}
			w := r.Next
			for _, lo := range crashx.TailLoss(x.Journal, r.JLen, p.Cfg, "quick") {
				where := fmt.Sprintf("power loss right after %s of thread %d returned %d (%s)", c, ti, w, lo.Desc)
				if lo.OpenErr != "" {
					return where + ": Open(Recover) failed: " + lo.OpenErr
				}
				if lo.ReadErr != "" {
					return where + ": reading the recovered log failed: " + lo.ReadErr
				}
				got := map[int64]bool{}
				last := int64(-1)
				for _, m := range lo.Walk {
					e, ok := ever[m.Off]
					if !ok || e.T != m.T || string(e.Key) != string(m.Key) || string(e.Val) != string(m.Val) {
						return fmt.Sprintf("%s: the recovered log shows %v, which was never published like that", where, m)
					}
					if m.Off <= last {
						return fmt.Sprintf("%s: offsets of the recovered log are not increasing (%d after %d)", where, m.Off, last)
					}
					last = m.Off
					got[m.Off] = true
				}
				for off := range finalLive {
					if off < w && !got[off] {
						return fmt.Sprintf("%s: offset %d (< %d) is live but missing from the recovered log %v", where, off, w, offsOf(lo.Walk))
					}
				}
				if !deletes {
					// without deletes the recovered log is a prefix of the final one
					for i, m := range lo.Walk {
						if i >= len(x.Final) || x.Final[i].Off != m.Off {
							return fmt.Sprintf("%s: the recovered log %v is not a prefix of the final log %v", where, offsOf(lo.Walk), offsOf(x.Final))
						}
					}
				}
				if lo.Next < w {
					return fmt.Sprintf("%s: NextOffset %d of the recovered log is below %d", where, lo.Next, w)
				}
				if lo.Durable != "" {
					return where + ": " + lo.Durable
				}
			}
		}
	}
	return ""
}

var _ = drv.BaseT
