package schedx

import (
	"context"

	"github.com/klev-dev/klevdb"
)

// The typed twin of the blocking wrapper (typed_blocking.go) is driven through
// an adapter that turns it back into a klevdb.BlockingLog, so that every
// blocking program and the whole oracle of C18 apply to it unchanged. Keys and
// values stay bytes (identity codec; nil <-> empty flag). Publish, NextOffset,
// Consume, ConsumeByKey, both blocking calls and Close go through the typed
// handle; everything else the programs of C18 never call.

type rawCodec struct{}

func (rawCodec) Encode(b []byte, empty bool) ([]byte, error) {
	if empty {
		return nil, nil
	}
	return b, nil
}

func (rawCodec) Decode(b []byte) ([]byte, bool, error) { return b, b == nil, nil }

type typedBlocking struct {
	klevdb.Log // Raw(): only for calls outside the typed interface
	t          klevdb.TBlockingLog[[]byte, []byte]
}

func toT(ms []klevdb.Message) []klevdb.TMessage[[]byte, []byte] {
	out := make([]klevdb.TMessage[[]byte, []byte], len(ms))
	for i, m := range ms {
		out[i] = klevdb.TMessage[[]byte, []byte]{Offset: m.Offset, Time: m.Time, Key: m.Key, KeyEmpty: m.Key == nil, Value: m.Value, ValueEmpty: m.Value == nil}
	}
	return out
}

func fromT(ts []klevdb.TMessage[[]byte, []byte]) []klevdb.Message {
	if ts == nil {
		return nil
	}
	out := make([]klevdb.Message, len(ts))
	for i, m := range ts {
		out[i] = klevdb.Message{Offset: m.Offset, Time: m.Time, Key: m.Key, Value: m.Value}
	}
	return out
}

func (l *typedBlocking) Publish(ms []klevdb.Message) (int64, error) { return l.t.Publish(toT(ms)) }
func (l *typedBlocking) NextOffset() (int64, error)                 { return l.t.NextOffset() }
func (l *typedBlocking) Close() error                               { return l.t.Close() }

func (l *typedBlocking) Consume(offset, maxCount int64) (int64, []klevdb.Message, error) {
	n, ms, err := l.t.Consume(offset, maxCount)
	return n, fromT(ms), err
}

func (l *typedBlocking) ConsumeByKey(key []byte, offset, maxCount int64) (int64, []klevdb.Message, error) {
	n, ms, err := l.t.ConsumeByKey(key, key == nil, offset, maxCount)
	return n, fromT(ms), err
}

func (l *typedBlocking) ConsumeBlocking(ctx context.Context, offset, maxCount int64) (int64, []klevdb.Message, error) {
	n, ms, err := l.t.ConsumeBlocking(ctx, offset, maxCount)
	return n, fromT(ms), err
}

func (l *typedBlocking) ConsumeByKeyBlocking(ctx context.Context, key []byte, offset, maxCount int64) (int64, []klevdb.Message, error) {
	n, ms, err := l.t.ConsumeByKeyBlocking(ctx, key, key == nil, offset, maxCount)
	return n, fromT(ms), err
}
