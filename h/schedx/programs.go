package schedx

import (
	"fmt"
	"sort"
	"strings"

	"verif/h/drv"
)

const roll2 = 60

var cfgBoth = drv.Cfg{Keys: true, Times: true, Rollover: roll2, Ver: 2}

func keep(c drv.Cfg) drv.Cfg { c.Keep = true; return c }

// initial states (letters applied sequentially)
type initState struct {
	name  string
	init  []string
	next  int64    // NextOffset of the state
	calls []string // the calls that are meaningful in it
}

// T1 is the time of the first message of every initial state (drv.BaseT+1).
const t1 = drv.BaseT + 1

var inits = []initState{
	{
		name: "fresh", init: nil, next: 0,
		calls: []string{"Publish:1", "Publish:2", "Consume:-2,40", "Consume:0,40", "Get:0", "Get:-1", "GetByKey:0", "NextOffset", "Sync", "Stat", "Delete:0", "ConsumeByKey:0,-2,40"},
	},
	{
		// head holds offsets 0,1 and is full: the next publish rolls over
		name: "full-head", init: []string{"P:0/1/u", "P:1/1/u"}, next: 2,
		calls: []string{"Publish:1", "Publish:2", "Consume:-2,40", "Consume:1,40", "Consume:2,40", "ConsumeByKey:0,-2,40", "Get:1", "Get:2", "Get:-1", "GetByKey:0", "GetByKey:1",
			fmt.Sprintf("GetByTime:%d", t1+1), fmt.Sprintf("GetByTime:%d", t1-5), "Delete:0", "Delete:1", "Delete:0,1", "Sync", "NextOffset", "Stat", "GC:0"},
	},
	{
		// segments [0,1] (loaded) [2,3] (unloaded) and head [4]
		name: "two-readers", init: []string{"P:0/1/u", "P:1/1/u", "P:0/1/u", "P:1/1/u", "P:0/1/u", "L", "G:0", "R:", "Get0"}, next: 5,
		calls: []string{"Publish:1", "Consume:-2,40", "Consume:2,40", "Consume:5,40", "ConsumeByKey:1,-2,40", "Get:0", "Get:3", "Get:4", "GetByKey:1",
			fmt.Sprintf("GetByTime:%d", t1+2), fmt.Sprintf("GetByTime:%d", t1-5), fmt.Sprintf("GetByTime:%d", t1+9), "Delete:4", "Delete:2", "Delete:0,1", "Delete:3,4", "Sync", "NextOffset", "Stat", "GC:0"},
	},
}

func init() {
	// "Get0" loads the first reader segment of the two-readers state
	drv.RegisterLetter("Get0", func(w *drv.World, arg string) bool {
		_, _ = w.L.Get(0)
		return true
	})
}

// Programs08 returns the programs of C08 for a tier.
func Programs08(tier string) []Program {
	var ps []Program
	seen := map[string]bool{}
	add := func(p Program) {
		// threads are symmetric: canonical order
		ts := make([]string, len(p.Threads))
		for i, t := range p.Threads {
			ts[i] = strings.Join(t, ";")
		}
		sort.Strings(ts)
		k := fmt.Sprintf("%s|%v|%s", strings.Join(p.Init, " "), p.Cfg, strings.Join(ts, "||"))
		if seen[k] {
			return
		}
		seen[k] = true
		p.Name = fmt.Sprintf("p%03d", len(ps))
		ps = append(ps, p)
	}
	readOnly := func(c string) bool {
		return !strings.HasPrefix(c, "Publish") && !strings.HasPrefix(c, "Delete") && !strings.HasPrefix(c, "GC")
	}
	for _, st := range inits {
		// all unordered pairs of calls (two pure reads do not conflict: left out)
		for i, a := range st.calls {
			for _, b := range st.calls[i:] {
				if readOnly(a) && readOnly(b) {
					continue
				}
				add(Program{Cfg: cfgBoth, Init: st.init, Threads: [][]string{{a}, {b}}})
			}
		}
		// KeepRewriteVersion: deletes against everything that can swap the head
		for _, a := range st.calls {
			if !strings.HasPrefix(a, "Delete") {
				continue
			}
			for _, b := range st.calls {
				if strings.HasPrefix(b, "Publish") || strings.HasPrefix(b, "Delete") {
					add(Program{Cfg: keep(cfgBoth), Init: st.init, Threads: [][]string{{a}, {b}}})
				}
			}
		}
	}
	// a log whose segments are V1 while new segments are V2 and rewrites keep the version:
	// the delete has to find out the version of the segment it rewrites
	v1keep := drv.Cfg{Keys: true, Times: true, Rollover: roll2, Ver: 1}
	for _, st := range inits[1:] {
		init := append(append([]string{}, st.init...), "R:v2,keep,noeager")
		for _, a := range st.calls {
			if !strings.HasPrefix(a, "Delete") {
				continue
			}
			for _, b := range []string{"Publish:1", "Publish:2", "Delete:0", "Delete:1", "Consume:-2,40", "Get:1"} {
				add(Program{Cfg: v1keep, Init: init, Threads: [][]string{{a}, {b}}})
			}
		}
	}
	// AutoSync: every publish and every rewrite fsyncs before it returns
	as := cfgBoth
	as.AutoSync = true
	for _, st := range inits {
		for _, pr := range [][2]string{{"Publish:1", "Publish:1"}, {"Publish:1", "Publish:2"}, {"Publish:1", "Delete:1"}, {"Publish:1", "Delete:0"}, {"Publish:1", "Sync"}, {"Delete:0", "Delete:1"}, {"Publish:1", "Consume:-2,40"}, {"Delete:1", "Consume:-2,40"}} {
			if st.next == 0 && strings.Contains(pr[0]+pr[1], "Delete") {
				continue
			}
			add(Program{Cfg: as, Init: st.init, Threads: [][]string{{pr[0]}, {pr[1]}}})
		}
	}
	// two calls in one thread against one call
	two := [][]string{
		{"Publish:1", "Publish:1"}, {"Publish:1", "Consume:-2,40"}, {"Delete:0", "Delete:1"}, {"Delete:1", "Publish:1"}, {"Consume:-2,40", "Consume:2,40"},
		{"Publish:1", "Get:-1"}, {"GC:0", "Get:0"},
	}
	for _, st := range inits[1:] {
		for _, t := range two {
			for _, b := range []string{"Publish:1", "Consume:-2,40", "Delete:1", "Delete:0", "GC:0", "Get:1", "Sync"} {
				add(Program{Cfg: cfgBoth, Init: st.init, Threads: [][]string{t, {b}}})
			}
		}
	}
	// three threads over the calls that take the locks exclusively or touch lazy load/unload
	tri := map[string][]string{
		"full-head":   {"Publish:1", "Delete:1", "Delete:0", "Consume:-2,40", "GC:0", "Get:1"},
		"two-readers": {"Publish:1", "Delete:4", "Delete:2", "Consume:-2,40", "GC:0", "Get:3", "Get:0"},
	}
	for _, st := range inits[1:] {
		cs := tri[st.name]
		for i := range cs {
			for j := i; j < len(cs); j++ {
				for k := j; k < len(cs); k++ {
					if readOnly(cs[i]) && readOnly(cs[j]) && readOnly(cs[k]) {
						continue
					}
					if tier != "thorough" && (i == j || j == k) {
						continue
					}
					add(Program{Cfg: cfgBoth, Init: st.init, Threads: [][]string{{cs[i]}, {cs[j]}, {cs[k]}}})
				}
			}
		}
	}
	// two pure reads do conflict where state is built lazily on the first access: first lookups
	// by key, offset and time on segments whose index and mapping are not loaded yet
	for _, pr := range [][2]string{{"GetByKey:1", "GetByKey:1"}, {"GetByKey:0", "GetByKey:1"}, {"GetByKey:1", "ConsumeByKey:1,-2,40"}, {"ConsumeByKey:0,-2,40", "ConsumeByKey:1,-2,40"},
		{"Get:3", "Get:2"}, {"Get:3", "Consume:2,40"}, {"Get:2", fmt.Sprintf("GetByTime:%d", t1+2)}, {"GetByKey:1", "Get:3"}, {"Stat", "Get:3"}} {
		add(Program{Cfg: cfgBoth, Init: inits[2].init, Threads: [][]string{{pr[0]}, {pr[1]}}})
	}
	// two readers that load the same unloaded segment at the same time, and a GC that may unload it
	for _, pr := range [][2]string{{"Get:3", "Get:2"}, {"Get:3", "Get:3"}, {"Get:3", "Consume:2,40"}, {"Consume:2,40", "Consume:3,40"}, {"GetByKey:1", "Get:2"}} {
		add(Program{Cfg: cfgBoth, Init: inits[2].init, Threads: [][]string{{pr[0]}, {pr[1]}, {"GC:0"}}})
		add(Program{Cfg: cfgBoth, Init: inits[2].init, Threads: [][]string{{pr[0]}, {pr[1]}, {"GC:0", "GC:0"}}})
	}
	// a log with holes: segment [0] whose tail (1) was deleted, segment [3] rebased by the delete of its
	// first message (2), full head [4 5]. Reads that start in a hole cross from one segment to the next
	// inside one call while a rollover, a head delete or a reader delete swaps the segment list.
	holes := initState{
		name: "holes", init: []string{"P:0/1/u", "P:1/1/u", "P:0/1/u", "P:1/1/u", "P:0/1/u", "P:1/1/u", "D:1", "D:2"}, next: 6,
		calls: []string{"Publish:1", "Delete:4", "Delete:5", "Delete:0", "GC:0",
			"Consume:1,40", "Consume:2,40", "Consume:-2,40", "Get:1", "Get:3", "ConsumeByKey:1,1,40", "GetByKey:1", fmt.Sprintf("GetByTime:%d", t1+1)},
	}
	if tier == "thorough" {
		holes.calls = append(holes.calls, "Delete:3", "Consume:1,1", "Get:-2", fmt.Sprintf("GetByTime:%d", t1+2), "Stat")
	}
	for i, a := range holes.calls {
		for _, b := range holes.calls[i:] {
			if readOnly(a) && readOnly(b) {
				continue
			}
			add(Program{Cfg: cfgBoth, Init: holes.init, Threads: [][]string{{a}, {b}}})
		}
	}
	for _, c := range []string{"Consume:1,40", "Consume:2,40", "Get:1", "ConsumeByKey:1,1,40"} {
		add(Program{Cfg: cfgBoth, Init: holes.init, Threads: [][]string{{c}, {"Publish:1"}, {"Delete:0"}}})
		add(Program{Cfg: cfgBoth, Init: holes.init, Threads: [][]string{{c}, {"GC:0"}, {"Delete:4"}}})
	}
	// two publishers against a third party (quick leaves multisets out of the generic triples)
	for _, st := range inits[1:] {
		for _, c := range []string{"Consume:-2,40", "Consume:2,40", "Delete:1", "Get:-1", "ConsumeByKey:0,-2,40", "NextOffset", "GC:0"} {
			add(Program{Cfg: cfgBoth, Init: st.init, Threads: [][]string{{"Publish:1"}, {"Publish:1"}, {c}}})
		}
		add(Program{Cfg: cfgBoth, Init: st.init, Threads: [][]string{{"Publish:2"}, {"Consume:-2,40"}, {"Delete:1"}}})
		add(Program{Cfg: keep(cfgBoth), Init: st.init, Threads: [][]string{{"Publish:1"}, {"Delete:1"}, {"Delete:0"}}})
	}
	return ps
}

// IsTriple reports whether the program has three threads.
func (p Program) IsTriple() bool { return len(p.Threads) >= 3 }
