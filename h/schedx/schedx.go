// Package schedx is engine E4: stateless exploration of every interleaving of
// small concurrent programs on the real klevdb code under the cooperative
// scheduler of /verif/shim/vsched: depth-first over choice lists with a
// preemption bound and happens-before pruning; every complete execution is
// judged by a brute-force linearizability check against the list model.
package schedx

import (
	"bytes"
	"context"
	"errors"
	"fmt"
	"os"
	"regexp"
	"runtime"
	"sort"
	"strconv"
	"strings"
	"sync"
	"sync/atomic"
	"syscall"
	"time"

	"github.com/klev-dev/klevdb"
	"github.com/klev-dev/klevdb/pkg/notify"
	"github.com/klev-dev/klevdb/pkg/vshim/vos"
	"github.com/klev-dev/klevdb/pkg/vshim/vsched"

	"verif/h/drv"
	"verif/h/model"
)

// Program is one small concurrent program: an initial state built
// sequentially and the calls of each thread.
type Program struct {
	Name       string
	Cfg        drv.Cfg
	Init       []string   // letters applied sequentially before the threads start
	Threads    [][]string // calls per thread, e.g. "Publish:1", "Consume:0,40"
	Block      bool       // open with OpenBlocking (C18)
	Typed      bool       // with Block: open with OpenTBlocking (typed twin of the blocking wrapper, typed_blocking.go) behind an adapter
	Notify     int64      // >= 0 with NotifyOnly: the notifier alone, starting at this offset
	NotifyOnly bool
	Durable    bool // record the file-system journal: every acknowledgement of durability is checked against power loss (C06)
}

func (p Program) String() string {
	var ts []string
	for _, t := range p.Threads {
		ts = append(ts, strings.Join(t, ";"))
	}
	ty := ""
	if p.Typed {
		ty = " typed"
	}
	return fmt.Sprintf("%s{init=%v cfg=[%s]%s %s}", p.Name, p.Init, p.Cfg, ty, strings.Join(ts, " || "))
}

// Res is the observed result of one call.
type Res struct {
	Next  int64
	Msgs  []model.Msg
	Err   string // error class: ok, notfound, invalid, noindex, ctx, closed, err:<text>
	Panic string
	N     int // Stat.Messages
	JLen  int // durable programs: length of the file-system journal when the call returned
}

var errCancelCause = errors.New("harness: cause given to the cancel function")

func errClass(err error) string {
	switch {
	case err == nil:
		return "ok"
	case errors.Is(err, klevdb.ErrNotFound):
		return "notfound"
	case errors.Is(err, klevdb.ErrInvalidOffset):
		return "invalid"
	case errors.Is(err, klevdb.ErrNoIndex):
		return "noindex"
	case errors.Is(err, context.Canceled), errors.Is(err, context.DeadlineExceeded):
		return "ctx"
	case errors.Is(err, notify.ErrOffsetNotifyClosed):
		return "closed"
	default:
		// directory names differ between executions of the same schedule
		return "err:" + pathRe.ReplaceAllString(err.Error(), "")
	}
}

var pathRe = regexp.MustCompile(`/[^ :]*/`)

func toModels(ms []klevdb.Message) []model.Msg {
	out := make([]model.Msg, len(ms))
	for i, m := range ms {
		out[i] = model.Msg{Off: m.Offset, T: m.Time.UnixMicro(), Key: m.Key, Val: m.Value}
	}
	return out
}

func ints(s string) []int64 {
	var out []int64
	if s == "" {
		return nil
	}
	for _, p := range strings.Split(s, ",") {
		n, err := strconv.ParseInt(p, 10, 64)
		if err != nil {
			panic("bad call argument " + s)
		}
		out = append(out, n)
	}
	return out
}

// pubMsgs builds the batch of a Publish call: thread t, call c, n messages.
// Times are far in the future of the initial state so that they stay
// non-decreasing whatever the order of publishes (same time for all).
func pubMsgs(t, c, n int) []klevdb.Message {
	ms := make([]klevdb.Message, n)
	for i := range ms {
		ms[i] = klevdb.Message{Time: time.UnixMicro(drv.BaseT + 1000).UTC(), Key: drv.Keys[(t+i)%2], Value: []byte(fmt.Sprintf("t%dc%dm%d", t, c, i))}
	}
	return ms
}

// doCall performs one call on the log.
// curNotify is the notifier of the running notifier-only execution.
var curNotify *notify.Offset

func doCall(l klevdb.Log, t, c int, call string, ctxs []context.Context, cancels []context.CancelFunc) (r Res) {
	defer func() {
		if p := recover(); p != nil {
			r.Panic = fmt.Sprint(p)
		}
		r.JLen = vos.JournalLen()
	}()
	op, arg, _ := strings.Cut(call, ":")
	a := ints(arg)
	switch op {
	case "Publish":
		n, err := l.Publish(pubMsgs(t, c, int(a[0])))
		return Res{Next: n, Err: errClass(err)}
	case "Consume":
		n, ms, err := l.Consume(a[0], a[1])
		return Res{Next: n, Msgs: toModels(ms), Err: errClass(err)}
	case "ConsumeByKey":
		n, ms, err := l.ConsumeByKey(drv.Keys[a[0]], a[1], a[2])
		return Res{Next: n, Msgs: toModels(ms), Err: errClass(err)}
	case "Get":
		m, err := l.Get(a[0])
		if err != nil {
			return Res{Err: errClass(err)}
		}
		return Res{Msgs: toModels([]klevdb.Message{m}), Err: "ok"}
	case "GetByKey":
		m, err := l.GetByKey(drv.Keys[a[0]])
		if err != nil {
			return Res{Err: errClass(err)}
		}
		return Res{Msgs: toModels([]klevdb.Message{m}), Err: "ok"}
	case "GetByTime":
		m, err := l.GetByTime(time.UnixMicro(a[0]))
		if err != nil {
			return Res{Err: errClass(err)}
		}
		return Res{Msgs: toModels([]klevdb.Message{m}), Err: "ok"}
	case "Delete":
		set := map[int64]struct{}{}
		for _, o := range a {
			set[o] = struct{}{}
		}
		ms, _, err := l.Delete(set)
		return Res{Msgs: toModels(ms), Err: errClass(err)}
	case "Sync":
		n, err := l.Sync()
		return Res{Next: n, Err: errClass(err)}
	case "NextOffset":
		n, err := l.NextOffset()
		return Res{Next: n, Err: errClass(err)}
	case "Stat":
		st, err := l.Stat()
		return Res{N: st.Messages, Err: errClass(err)}
	case "GC":
		err := l.GC(time.Duration(a[0]))
		return Res{Err: errClass(err)}
	case "Backup":
		// what the backup holds is read after the execution (fillBackups)
		err := l.Backup(bkDir(int(a[0])))
		if err == nil {
			// keep what this call produced: a later Backup into the same directory overwrites it
			_ = os.RemoveAll(bkSnap(int(a[0]), t, c))
			_ = drv.CopyDir(bkDir(int(a[0])), bkSnap(int(a[0]), t, c))
		}
		return Res{Err: errClass(err)}
	case "ConsumeBlocking":
		bl := l.(klevdb.BlockingLog)
		n, ms, err := bl.ConsumeBlocking(ctxs[a[0]], a[1], a[2])
		return Res{Next: n, Msgs: toModels(ms), Err: errClass(err)}
	case "ConsumeByKeyBlocking":
		bl := l.(klevdb.BlockingLog)
		n, ms, err := bl.ConsumeByKeyBlocking(ctxs[a[0]], drv.Keys[a[1]], a[2], a[3])
		return Res{Next: n, Msgs: toModels(ms), Err: errClass(err)}
	case "Cancel":
		cancels[a[0]]()
		return Res{Err: "ok"}
	case "Wait":
		err := curNotify.Wait(ctxs[a[0]], a[1])
		return Res{Err: errClass(err)}
	case "Set":
		curNotify.Set(a[0])
		return Res{Err: "ok"}
	case "NClose":
		err := curNotify.Close()
		return Res{Err: errClass(err)}
	case "Close":
		err := l.Close()
		return Res{Err: errClass(err)}
	default:
		panic("unknown call " + call)
	}
}

// Execution is everything one run of a program under one schedule showed.
type Execution struct {
	Choices    []int
	Dec        []vsched.Decision
	Hist       []vsched.HistEvent
	Results    [][]Res
	Deadlock   string
	Hung       bool
	Diverged   string
	Final      []model.Msg
	FinalN     int64
	FinalErr   string
	CloseErr   string
	Init       *model.Log
	Parked     []bool // per thread: still parked when nothing else could run (C18)
	ParkedDesc string
	EverParked []bool
	Ops        int
	IndexDis   []string    // index files that do not match their log after Close (C11 under concurrency)
	Journal    []vos.Event // durable programs: the file-system journal of the execution
}

var workerRoot string

func root() string {
	if workerRoot == "" {
		base := os.Getenv("VERIF_SCRATCH")
		if base == "" {
			base = "/dev/shm"
		}
		var err error
		workerRoot, err = os.MkdirTemp(base, fmt.Sprintf("verif.%d.", os.Getpid()))
		if err != nil {
			panic(err)
		}
	}
	return workerRoot
}

func CleanupWorker() {
	if workerRoot != "" {
		_ = os.RemoveAll(workerRoot)
	}
}

// runScheduled runs f in a thread of its own under the scheduler and
// reports a deadlock ("" = f returned).
func runScheduled(f func()) string {
	var exited int32
	done := make(chan struct{})
	vsched.Begin(1, nil)
	go func() {
		defer close(done)
		defer atomic.AddInt32(&exited, 1)
		vsched.Enter(0)
		f()
		vsched.Exit(0)
	}()
	hung := vsched.Run(20 * time.Second)
	if dl, what := vsched.Deadlocked(); dl || hung {
		vsched.Abort()
		joinAborted(&exited, 1)
		if what == "" {
			what = "a thread did not reach its next scheduling point"
		}
		return what
	}
	<-done
	return ""
}

// joinAborted waits (bounded) until the threads of an aborted execution have
// left: parked threads exit through runtime.Goexit once they see the abort
// flag; starting the next execution before they are gone would leave them
// spinning for ever (the flag is reset) or let their deferred unlocks touch
// the next execution's scheduler state.
// NeedRestart is set when an execution left a goroutine behind that can never finish: the
// worker process reports its result and is then replaced.
var NeedRestart bool

// joinAll waits for all harness threads to exit; false if they have not after 20 s of CPU time
// of this process (the waiting loop itself burns CPU, so this cannot be a matter of load).
func joinAll(exited *int32, n int) bool {
	var ru0 syscall.Rusage
	_ = syscall.Getrusage(syscall.RUSAGE_SELF, &ru0)
	start := time.Duration(ru0.Utime.Nano() + ru0.Stime.Nano())
	for spins := 0; atomic.LoadInt32(exited) < int32(n); spins++ {
		runtime.Gosched()
		if spins&1023 == 1023 {
			var ru syscall.Rusage
			_ = syscall.Getrusage(syscall.RUSAGE_SELF, &ru)
			if time.Duration(ru.Utime.Nano()+ru.Stime.Nano())-start > 20*time.Second {
				return false
			}
		}
	}
	return true
}

func joinAborted(exited *int32, n int) {
	start := time.Now()
	for atomic.LoadInt32(exited) < int32(n) && time.Since(start) < 5*time.Second {
		runtime.Gosched()
	}
}

// Exec runs the program once. With free=true the scheduler stays off and the
// threads run freely (cross-check of the scheduler; call/return order is then
// taken from a global counter).
func Exec(p Program, choices []int, free bool) (*Execution, error) {
	if p.NotifyOnly {
		return execNotify(p, choices)
	}
	var w *drv.World
	var err error
	if p.Durable && !free {
		// the journal starts before the first Open: every handle is tracked and what the
		// initial letters left unsynced is unsynced
		w, err = drv.NewWorldWith(root(), p.Cfg, func(w *drv.World) { vos.StartJournal(w.Dir) })
		defer vos.Stop()
	} else {
		w, err = drv.NewWorld(root(), p.Cfg)
	}
	if err != nil {
		return nil, err
	}
	defer func() {
		if p.Block {
			// the blocking wrapper's Close waits for the barrier token: after a deadlocked or
			// aborted execution it would wait for real. The final step closes it under the
			// scheduler; on every other path the handle is dropped with the directory.
			w.L = nil
		}
		w.Cleanup()
	}()
	bkBase = w.Dir
	defer func() {
		for n := 0; n < 3; n++ {
			_ = os.RemoveAll(bkDir(n))
		}
	}()
	for n := 0; n < 3; n++ {
		_ = os.RemoveAll(bkDir(n))
		_ = os.MkdirAll(bkDir(n), 0o700)
	}
	for _, l := range p.Init {
		if !w.Apply(l) {
			return nil, fmt.Errorf("initial letter %s failed: %v", l, w.Dis)
		}
	}
	var l klevdb.Log = w.L
	if p.Block {
		// through OpenBlocking itself (the initial state is on disk: close and open again)
		if err := w.L.Close(); err != nil {
			return nil, err
		}
		w.L = nil
		var bl klevdb.BlockingLog
		var err error
		if p.Typed {
			var tl klevdb.TBlockingLog[[]byte, []byte]
			if tl, err = klevdb.OpenTBlocking[[]byte, []byte](w.Dir, p.Cfg.Options(), rawCodec{}, rawCodec{}); err == nil {
				bl = &typedBlocking{Log: tl.Raw(), t: tl}
			}
		} else {
			bl, err = klevdb.OpenBlocking(w.Dir, p.Cfg.Options())
		}
		if err != nil {
			return nil, err
		}
		w.L = bl
		l = bl
	}
	x := &Execution{Choices: choices, Init: w.M.Clone(), Results: make([][]Res, len(p.Threads))}
	nctx := 4
	ctxs := make([]context.Context, nctx)
	cancels := make([]context.CancelFunc, nctx)
	for i := range ctxs {
		// cancelled with a cause of its own: the calls must still report ctx.Err(), not the cause
		c, cc := context.WithCancelCause(context.Background())
		ctxs[i], cancels[i] = c, func() { cc(errCancelCause) }
	}
	defer func() {
		for _, c := range cancels {
			c()
		}
	}()
	var wg sync.WaitGroup
	var exited int32
	var fmu sync.Mutex
	fstep := 0
	var fhist []vsched.HistEvent
	if !free {
		// file identities for the scheduler's conflict relation on file-system calls
		if !p.Durable {
			vos.Track(w.Dir)
			defer vos.Stop()
		}
		vsched.Begin(len(p.Threads), choices)
	}
	for ti := range p.Threads {
		x.Results[ti] = make([]Res, len(p.Threads[ti]))
		wg.Add(1)
		go func(ti int) {
			defer wg.Done()
			defer atomic.AddInt32(&exited, 1)
			if !free {
				vsched.Enter(ti)
			}
			for ci, call := range p.Threads[ti] {
				if free {
					fmu.Lock()
					fhist = append(fhist, vsched.HistEvent{Thread: ti, Call: ci, Step: fstep})
					fstep++
					fmu.Unlock()
				} else {
					vsched.Call(ci, call)
				}
				r := doCall(l, ti, ci, call, ctxs, cancels)
				if free {
					fmu.Lock()
					fhist = append(fhist, vsched.HistEvent{Thread: ti, Call: ci, Ret: true, Step: fstep})
					fstep++
					fmu.Unlock()
				} else {
					vsched.Ret(ci)
				}
				x.Results[ti][ci] = r
			}
			if !free {
				vsched.Exit(ti)
			}
		}(ti)
	}
	if free {
		wg.Wait()
		x.Hist = fhist
	} else {
		x.Hung = vsched.Run(20 * time.Second)
		x.Dec = append([]vsched.Decision(nil), vsched.Decisions()...)
		x.Hist = append([]vsched.HistEvent(nil), vsched.History()...)
		x.Diverged = vsched.Diverged()
		x.Ops = vsched.Ops()
		if vsched.Overflow() {
			x.Diverged = "scheduler object table overflow"
		}
		if dl, what := vsched.Deadlocked(); dl {
			waitersOnly := p.Block
			x.Parked = make([]bool, len(p.Threads))
			for ti := range p.Threads {
				if vsched.Finished(ti) {
					continue
				}
				if vsched.ParkedInSelect(ti) {
					x.Parked[ti] = true
				} else {
					waitersOnly = false
				}
			}
			if !waitersOnly {
				x.Deadlock = what
				vsched.Abort()
				joinAborted(&exited, len(p.Threads))
				return x, nil
			}
			// quiescence with parked waiters: legitimate in blocking programs. Release
			// them by cancelling every context and let the execution finish.
			x.ParkedDesc = what
			for _, c := range cancels {
				c()
			}
			x.Hung = vsched.Resume(20 * time.Second)
			if dl2, what2 := vsched.Deadlocked(); dl2 {
				x.Deadlock = "after cancelling all contexts: " + what2
				vsched.Abort()
				joinAborted(&exited, len(p.Threads))
				return x, nil
			}
			x.Dec = append([]vsched.Decision(nil), vsched.Decisions()...)
			x.Hist = append([]vsched.HistEvent(nil), vsched.History()...)
		}
		x.EverParked = make([]bool, len(p.Threads))
		for ti := range p.Threads {
			x.EverParked[ti] = vsched.EverParked(ti)
		}
		if x.Hung {
			vsched.Abort()
			joinAborted(&exited, len(p.Threads))
			return x, nil
		}
		if !joinAll(&exited, len(p.Threads)) {
			// the scheduler says every thread has finished, yet one never returns: it is blocked
			// on something the scheduler does not see (a real channel or lock)
			x.Hung = true
			NeedRestart = true
			vsched.Abort()
			return x, nil
		}
	}
	// final sequential observation and Close. Under the scheduler they run as a
	// one-thread program: if they wait for something nobody will provide (a leaked
	// lock or barrier token) that is a deadlock, not a hang of the harness.
	wl := w.L
	if closedBy(p) {
		x.FinalErr = "closed"
		w.L = nil
		return x, nil
	}
	final := func() {
		off := klevdb.OffsetOldest
		for i := 0; i < 100; i++ {
			next, msgs, err := wl.Consume(off, 40)
			if err != nil {
				x.FinalErr = fmt.Sprintf("Consume(%d): %v", off, err)
				break
			}
			x.Final = append(x.Final, toModels(msgs)...)
			if len(msgs) == 0 && (off >= 0 && next <= off) {
				break
			}
			off = next
		}
		n, err := wl.NextOffset()
		if err != nil {
			x.FinalErr = "NextOffset: " + err.Error()
		}
		x.FinalN = n
		if err := l.Close(); err != nil {
			x.CloseErr = pathRe.ReplaceAllString(err.Error(), "")
		}
	}
	if free {
		final()
	} else if what := runScheduled(final); what != "" {
		x.CloseErr = "Close never returns once all calls have finished: " + what
	}
	w.L = nil
	if strings.HasPrefix(x.CloseErr, "Close never returns") {
		return x, nil
	}
	if p.Durable && !free {
		x.Journal = vos.Stop()
	}
	fillBackups(p, x)
	w.M = &model.Log{Live: x.Final, Next: x.FinalN, Monotone: true}
	w.Dis = nil
	w.CheckIndexFiles()
	for _, d := range w.Dis {
		x.IndexDis = append(x.IndexDis, d.Msg)
	}
	return x, nil
}

func closedBy(p Program) bool {
	for _, t := range p.Threads {
		for _, c := range t {
			if c == "Close" {
				return true
			}
		}
	}
	return false
}

// ------------------------------------------------------------ linearizability

type callRef struct {
	t, c     int
	inv, ret int
	name     string
	res      Res
}

// legal reports whether res is a legal result of call on model m and applies
// its effect. It is the sequential specification, result-driven where the
// properties leave the result open.
func legal(m *model.Log, cr callRef) bool {
	r := cr.res
	if r.Panic != "" {
		return false
	}
	op, arg, _ := strings.Cut(cr.name, ":")
	a := ints(arg)
	switch op {
	case "Publish":
		n := int(a[0])
		if r.Err != "ok" || r.Next != m.Next+int64(n) {
			return false
		}
		var batch []model.Msg
		for _, km := range pubMsgs(cr.t, cr.c, n) {
			batch = append(batch, model.Msg{T: km.Time.UnixMicro(), Key: km.Key, Val: km.Value})
		}
		m.Publish(batch)
		return true
	case "Consume":
		if a[0] > m.Next {
			return r.Err == "invalid"
		}
		return r.Err == "ok" && m.CheckConsume(a[0], a[1], r.Next, r.Msgs) == ""
	case "ConsumeByKey":
		if r.Err != "ok" {
			return false
		}
		return m.CheckConsumeByKey(drv.Keys[a[0]], a[1], a[2], r.Next, r.Msgs) == ""
	case "Get":
		o := a[0]
		switch {
		case o == klevdb.OffsetOldest || o == klevdb.OffsetNewest:
			if len(m.Live) == 0 {
				return r.Err == "invalid"
			}
			want := m.Live[0]
			if o == klevdb.OffsetNewest {
				want = m.Live[len(m.Live)-1]
			}
			return r.Err == "ok" && r.Msgs[0].Same(want)
		case m.Index(o) >= 0:
			return r.Err == "ok" && r.Msgs[0].Same(m.Live[m.Index(o)])
		case o < m.Next:
			return r.Err == "notfound"
		default:
			return r.Err == "invalid"
		}
	case "GetByKey":
		want, ok := m.LastByKey(drv.Keys[a[0]])
		if !ok {
			return r.Err == "notfound"
		}
		return r.Err == "ok" && r.Msgs[0].Same(want)
	case "GetByTime":
		want, ok := m.FirstByTime(a[0])
		switch {
		case ok:
			return r.Err == "ok" && r.Msgs[0].Same(want)
		case len(m.Live) == 0:
			return r.Err == "notfound" || r.Err == "invalid"
		default:
			return r.Err == "notfound"
		}
	case "Delete":
		if r.Err == "notfound" && len(r.Msgs) == 0 {
			// re-deleting an offset below the oldest segment is reported as not found (nothing is deleted)
			min := a[0]
			for _, o := range a {
				if o < min {
					min = o
				}
			}
			return len(m.Live) == 0 || min < m.Live[0].Off
		}
		if r.Err != "ok" {
			return false
		}
		rm := map[int64]bool{}
		for _, d := range r.Msgs {
			i := m.Index(d.Off)
			if i < 0 || !m.Live[i].Same(d) {
				return false
			}
			found := false
			for _, o := range a {
				if o == d.Off {
					found = true
				}
			}
			if !found {
				return false
			}
			rm[d.Off] = true
		}
		m.Remove(rm)
		return true
	case "Sync", "NextOffset":
		return r.Err == "ok" && r.Next == m.Next
	case "Stat":
		return r.Err == "ok"
	case "GC":
		return r.Err == "ok"
	case "Backup":
		// the backup opens to the log as it was at one moment of the call
		if r.Err != "ok" || r.Next != m.Next || len(r.Msgs) != len(m.Live) {
			return false
		}
		for i := range m.Live {
			if !m.Live[i].Same(r.Msgs[i]) {
				return false
			}
		}
		return true
	case "Cancel":
		return true
	default:
		return false
	}
}

// backup directories of the running execution (C20 under concurrency)
var bkBase string

func bkDir(n int) string { return fmt.Sprintf("%s.cbk%d", bkBase, n) }

func bkSnap(n, t, c int) string { return fmt.Sprintf("%s.cbk%d.t%dc%d", bkBase, n, t, c) }

// fillBackups opens every backup the program took (after the execution has ended) and puts
// what it shows into the result of the Backup call; a backup that does not pass Check or
// cannot be read gets an error result, which no sequential order explains.
func fillBackups(p Program, x *Execution) {
	for ti, t := range p.Threads {
		for ci, c := range t {
			if !strings.HasPrefix(c, "Backup:") || x.Results[ti][ci].Err != "ok" {
				continue
			}
			r := &x.Results[ti][ci]
			dir := bkSnap(int(ints(strings.TrimPrefix(c, "Backup:"))[0]), ti, ci)
			defer os.RemoveAll(dir)
			o := p.Cfg.Options()
			if err := klevdb.Check(dir, o); err != nil {
				r.Err = "err:the backup does not pass Check: " + pathRe.ReplaceAllString(err.Error(), "")
				continue
			}
			o.Check = true
			l, err := klevdb.Open(dir, o)
			if err != nil {
				r.Err = "err:Open(Check) of the backup failed: " + pathRe.ReplaceAllString(err.Error(), "")
				continue
			}
			off := klevdb.OffsetOldest
			for i := 0; i < 100; i++ {
				next, msgs, err := l.Consume(off, 40)
				if err != nil {
					r.Err = "err:reading the backup failed: " + pathRe.ReplaceAllString(err.Error(), "")
					break
				}
				r.Msgs = append(r.Msgs, toModels(msgs)...)
				if len(msgs) == 0 && (off >= 0 && next <= off) {
					break
				}
				off = next
			}
			r.Next, _ = l.NextOffset()
			// every message the backup shows is also reachable directly
			for _, m := range r.Msgs {
				if g, err := l.Get(m.Off); err != nil || string(g.Value) != string(m.Val) {
					r.Err = fmt.Sprintf("err:the backup's Get(%d) disagrees with its Consume", m.Off)
				}
			}
			_ = l.Close()
		}
	}
}

func cloneModel(m *model.Log) *model.Log { return m.Clone() }

// Linearizable searches an order of the calls, consistent with real time, in
// which every result is legal and the final model equals the final
// observation. It returns a description of the failure ("" = linearizable).
func Linearizable(p Program, x *Execution) string {
	var calls []callRef
	for ti := range p.Threads {
		for ci, name := range p.Threads[ti] {
			cr := callRef{t: ti, c: ci, name: name, res: x.Results[ti][ci], inv: -1, ret: 1 << 30}
			for _, h := range x.Hist {
				if h.Thread == ti && h.Call == ci {
					if h.Ret {
						cr.ret = h.Step
					} else {
						cr.inv = h.Step
					}
				}
			}
			calls = append(calls, cr)
		}
	}
	for _, c := range calls {
		if c.res.Panic != "" {
			return fmt.Sprintf("T%d %s panicked: %s", c.t, c.name, c.res.Panic)
		}
	}
	n := len(calls)
	used := make([]bool, n)
	var order []int
	var search func(m *model.Log) bool
	search = func(m *model.Log) bool {
		if len(order) == n {
			if x.FinalErr == "closed" {
				return true // the program closed the log: no final observation
			}
			if x.FinalErr != "" {
				return false
			}
			if m.Next != x.FinalN || len(m.Live) != len(x.Final) {
				return false
			}
			for i := range m.Live {
				if !m.Live[i].Same(x.Final[i]) {
					return false
				}
			}
			return true
		}
		for i := 0; i < n; i++ {
			if used[i] {
				continue
			}
			// real time: every call that returned before i was invoked must already be placed
			ok := true
			for j := 0; j < n; j++ {
				if !used[j] && j != i && calls[j].ret < calls[i].inv {
					ok = false
					break
				}
			}
			if !ok {
				continue
			}
			m2 := cloneModel(m)
			if !legal(m2, calls[i]) {
				continue
			}
			used[i] = true
			order = append(order, i)
			if search(m2) {
				return true
			}
			order = order[:len(order)-1]
			used[i] = false
		}
		return false
	}
	if search(cloneModel(x.Init)) {
		return ""
	}
	var parts []string
	sort.Slice(calls, func(i, j int) bool { return calls[i].inv < calls[j].inv })
	for _, c := range calls {
		parts = append(parts, fmt.Sprintf("T%d %s [%d,%d] -> %s", c.t, c.name, c.inv, c.ret, resString(c.res)))
	}
	return fmt.Sprintf("no sequential order of the calls explains the results: %s; final log %v next %d %s", strings.Join(parts, " | "), offsOf(x.Final), x.FinalN, x.FinalErr)
}

func offsOf(ms []model.Msg) []int64 {
	out := make([]int64, len(ms))
	for i, m := range ms {
		out[i] = m.Off
	}
	return out
}

func resString(r Res) string {
	if r.Panic != "" {
		return "panic " + r.Panic
	}
	var b bytes.Buffer
	fmt.Fprintf(&b, "(%s", r.Err)
	if r.Next != 0 || len(r.Msgs) > 0 {
		fmt.Fprintf(&b, " next=%d", r.Next)
	}
	if len(r.Msgs) > 0 {
		fmt.Fprintf(&b, " msgs=")
		for _, m := range r.Msgs {
			fmt.Fprintf(&b, "%d:%s ", m.Off, m.Val)
		}
	}
	b.WriteString(")")
	return b.String()
}

// Outcome is a compact rendering of everything observable in an execution
// (used to count distinct observed histories).
func (x *Execution) Outcome() string {
	var b strings.Builder
	for ti := range x.Results {
		for ci := range x.Results[ti] {
			fmt.Fprintf(&b, "%d.%d%s;", ti, ci, resString(x.Results[ti][ci]))
		}
	}
	fmt.Fprintf(&b, "F%v,%d", offsOf(x.Final), x.FinalN)
	// real-time order of calls
	for _, h := range x.Hist {
		fmt.Fprintf(&b, "|%d.%d.%v", h.Thread, h.Call, h.Ret)
	}
	return b.String()
}

// Trace renders the schedule of an execution for humans.
func (x *Execution) Trace(p Program) string {
	var b strings.Builder
	for i, d := range x.Dec {
		t := int(d.Enabled[d.Chosen])
		pre := ""
		if d.CurStill && d.Chosen != 0 {
			pre = "  <- preemption"
		}
		fmt.Fprintf(&b, "  step %3d: T%d %s%s\n", i, t, vsched.KindName(d.OpKind), pre)
	}
	for ti := range x.Results {
		for ci := range x.Results[ti] {
			fmt.Fprintf(&b, "  T%d %s -> %s\n", ti, p.Threads[ti][ci], resString(x.Results[ti][ci]))
		}
	}
	fmt.Fprintf(&b, "  final log %v next %d %s\n", offsOf(x.Final), x.FinalN, x.FinalErr)
	return b.String()
}

// execNotify runs a notifier-only program (no log, no files).
func execNotify(p Program, choices []int) (*Execution, error) {
	curNotify = notify.NewOffset(p.Notify)
	x := &Execution{Choices: choices, Init: &model.Log{Next: p.Notify}, Results: make([][]Res, len(p.Threads)), FinalErr: "closed"}
	nctx := 6
	ctxs := make([]context.Context, nctx)
	cancels := make([]context.CancelFunc, nctx)
	for i := range ctxs {
		// cancelled with a cause of its own: the calls must still report ctx.Err(), not the cause
		c, cc := context.WithCancelCause(context.Background())
		ctxs[i], cancels[i] = c, func() { cc(errCancelCause) }
	}
	defer func() {
		for _, c := range cancels {
			c()
		}
	}()
	var wg sync.WaitGroup
	var exited int32
	vsched.Begin(len(p.Threads), choices)
	for ti := range p.Threads {
		x.Results[ti] = make([]Res, len(p.Threads[ti]))
		wg.Add(1)
		go func(ti int) {
			defer wg.Done()
			defer atomic.AddInt32(&exited, 1)
			vsched.Enter(ti)
			for ci, call := range p.Threads[ti] {
				vsched.Call(ci, call)
				r := doCall(nil, ti, ci, call, ctxs, cancels)
				vsched.Ret(ci)
				x.Results[ti][ci] = r
			}
			vsched.Exit(ti)
		}(ti)
	}
	x.Hung = vsched.Run(20 * time.Second)
	x.Dec = append([]vsched.Decision(nil), vsched.Decisions()...)
	x.Hist = append([]vsched.HistEvent(nil), vsched.History()...)
	x.Diverged = vsched.Diverged()
	x.Ops = vsched.Ops()
	if dl, what := vsched.Deadlocked(); dl {
		x.Parked = make([]bool, len(p.Threads))
		waitersOnly := true
		for ti := range p.Threads {
			if vsched.Finished(ti) {
				continue
			}
			if vsched.ParkedInSelect(ti) {
				x.Parked[ti] = true
			} else {
				waitersOnly = false
			}
		}
		if !waitersOnly {
			x.Deadlock = what
			vsched.Abort()
			joinAborted(&exited, len(p.Threads))
			return x, nil
		}
		for _, c := range cancels {
			c()
		}
		x.Hung = vsched.Resume(20 * time.Second)
		if dl2, what2 := vsched.Deadlocked(); dl2 {
			x.Deadlock = "after cancelling all contexts: " + what2
			vsched.Abort()
			joinAborted(&exited, len(p.Threads))
			return x, nil
		}
		x.Dec = append([]vsched.Decision(nil), vsched.Decisions()...)
		x.Hist = append([]vsched.HistEvent(nil), vsched.History()...)
	}
	x.EverParked = make([]bool, len(p.Threads))
	for ti := range p.Threads {
		x.EverParked[ti] = vsched.EverParked(ti)
	}
	if x.Hung {
		vsched.Abort()
		joinAborted(&exited, len(p.Threads))
		return x, nil
	}
	if !joinAll(&exited, len(p.Threads)) {
		x.Hung = true
		NeedRestart = true
		vsched.Abort()
		return x, nil
	}
	return x, nil
}
