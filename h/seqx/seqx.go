// Package seqx is engine E1: explicit-state breadth-first search over API
// histories executed on the real klevdb code in lockstep with the model.
// A state is identified by the shortest history reaching it; successors are
// computed by replaying that history on a fresh directory plus one letter.
package seqx

import (
	"encoding/json"
	"fmt"
	"os"
	"sort"
	"strings"
	"time"

	"verif/h/drv"
	"verif/h/eng"
)

// Family is one explored space: configurations, alphabet, depth, observation.
type Family struct {
	Name    string
	Cfgs    []drv.Cfg
	Letters func(w *drv.World) []string // letters that extend the frontier
	Leaves  func(w *drv.World) []string // letters executed and judged at every state but not expanded
	Depth   map[string]int              // tier -> depth
	Obs     drv.ObsMask
	KeySet  []int
	LeafObs drv.ObsMask                                   // observation after a leaf letter (default: Obs)
	Setup   func(w *drv.World)                            // installed on every fresh world
	AtClose func(w *drv.World)                            // runs whenever the final letter of a transition closes the directory
	Before  func(w *drv.World) any                        // snapshot taken before the final letter
	After   func(w *drv.World, letter string, before any) // family invariants after the final letter
	Prefix  []string                                      // letters applied before the search starts (non-initial start state)
	Charge  string                                        // property that owns every disagreement seen after this family's letters (content preservation clauses)
}

var Families = map[string]*Family{}

func Register(f *Family) { Families[f.Name] = f }

type Task struct {
	Fam  string
	Cfg  int
	Hist []string
	Tier string
}

type Succ struct {
	Letter string
	Key    string
	Leaf   bool
	Fatal  bool
	Dis    []drv.Dis
	FP     uint64
	Calls  int
	Extra  map[string]int
}

type Result struct {
	Succs      []Succ
	HarnessErr string
}

func scratchRoot() string {
	root := os.Getenv("VERIF_SCRATCH")
	if root == "" {
		root = "/dev/shm"
	}
	return root
}

var workerRoot string

// Worker handles one task: expand one state.
func Worker(raw json.RawMessage) any {
	var t Task
	if err := json.Unmarshal(raw, &t); err != nil {
		return Result{HarnessErr: err.Error()}
	}
	if workerRoot == "" {
		var err error
		workerRoot, err = os.MkdirTemp(scratchRoot(), fmt.Sprintf("verif.%d.", os.Getpid()))
		if err != nil {
			return Result{HarnessErr: err.Error()}
		}
	}
	f := Families[t.Fam]
	if f == nil {
		return Result{HarnessErr: "unknown family " + t.Fam}
	}
	res := Result{}
	// replay the history once to learn the enabled letters
	w, err := replay(f, t.Cfg, t.Hist)
	if err != nil {
		return Result{HarnessErr: err.Error()}
	}
	letters := f.Letters(w)
	var leaves []string
	if f.Leaves != nil {
		leaves = f.Leaves(w)
	}
	w.Cleanup()
	mask := f.Obs
	if t.Tier == "thorough" {
		mask |= drv.ObsWide
	}
	run := func(letter string, leaf bool) {
		w, err := replay(f, t.Cfg, t.Hist)
		if err != nil {
			res.HarnessErr = err.Error()
			return
		}
		defer w.Cleanup()
		w.Dis = nil
		var pre any
		if f.Before != nil {
			pre = f.Before(w)
		}
		w.AtClose = f.AtClose
		ok := w.Apply(letter)
		w.AtClose = nil
		s := Succ{Letter: letter, Leaf: leaf, Fatal: !ok}
		if ok && w.L != nil {
			if !leaf {
				s.Key = w.Key()
			}
			m := mask
			if leaf && f.LeafObs != 0 {
				m = f.LeafObs
			}
			s.FP = w.Observe(m | drv.ObsFP)
			if f.After != nil {
				f.After(w, letter, pre)
			}
		}
		s.Dis = w.Dis
		for i, d := range s.Dis {
			if d.Fatal {
				s.Fatal = true
			}
			if f.Charge != "" && !d.Has(f.Charge) {
				s.Dis[i].Props = append(append([]string{}, d.Props...), f.Charge)
			}
		}
		res.Succs = append(res.Succs, s)
	}
	for _, l := range letters {
		run(l, false)
	}
	for _, l := range leaves {
		run(l, true)
	}
	return res
}

func replay(f *Family, cfg int, hist []string) (*drv.World, error) {
	w, err := drv.NewWorld(workerRoot, f.Cfgs[cfg])
	if err != nil {
		return nil, fmt.Errorf("fresh world: %w", err)
	}
	w.KeySet = f.KeySet
	if f.Setup != nil {
		f.Setup(w)
	}
	for _, l := range f.Prefix {
		if !w.Apply(l) {
			w.Cleanup()
			return nil, fmt.Errorf("prefix letter %s failed: %v", l, w.Dis)
		}
	}
	for _, l := range hist {
		if !w.Apply(l) {
			w.Cleanup()
			return nil, fmt.Errorf("replay of %v diverged at %s: %v", hist, l, w.Dis)
		}
	}
	return w, nil
}

// CleanupWorker removes the worker's scratch directory.
func CleanupWorker() {
	if workerRoot != "" {
		_ = os.RemoveAll(workerRoot)
	}
}

// Stats of one exploration.
type Stats struct {
	States, Transitions, Leaves int
	FPs                         map[uint64]struct{}
	Depth                       int
	Calls                       int
	Extra                       map[string]int
}

// Explore runs the BFS of one family for one property.
func Explore(r *eng.Run, pool *eng.Pool, f *Family, tier string, deadline time.Time, st *Stats) {
	depth := f.Depth[tier]
	if depth == 0 {
		depth = f.Depth["quick"]
	}
	if s := os.Getenv("VERIF_DEPTH"); s != "" {
		fmt.Sscan(s, &depth)
	}
	for ci := range f.Cfgs {
		seen := map[string]struct{}{}
		frontier := [][]string{{}}
		st.States++
		for d := 1; d <= depth && len(frontier) > 0; d++ {
			if time.Now().After(deadline) {
				r.Cap(fmt.Sprintf("family %s cfg %d: deadline before depth %d (completed depth %d)", f.Name, ci, d, d-1))
				break
			}
			tasks := make([]Task, len(frontier))
			for i, h := range frontier {
				tasks[i] = Task{Fam: f.Name, Cfg: ci, Hist: h, Tier: tier}
			}
			// the seed only rotates the order in which shards are handed out
			if r.Seed != 0 && len(tasks) > 1 {
				k := r.Seed % len(tasks)
				if k < 0 {
					k = -k
				}
				tasks = append(tasks[k:], tasks[:k]...)
			}
			type nx struct {
				key  string
				hist []string
			}
			var next []nx
			eng.Map(pool, tasks, func(i int, raw json.RawMessage, err error) {
				t := tasks[i]
				if err != nil {
					if err == eng.ErrHung {
						r.Report(eng.Violation{Sig: "hang", Msg: fmt.Sprintf("a call did not return within the guard while expanding %v (family %s, %s)", t.Hist, f.Name, f.Cfgs[ci]),
							Replay: map[string]any{"family": f.Name, "cfg": f.Cfgs[ci], "history": t.Hist, "note": "one of the enabled letters after this history hangs"}})
					} else {
						r.HarnessError(fmt.Sprintf("family %s history %v: %v", f.Name, t.Hist, err))
					}
					return
				}
				var res Result
				if err := json.Unmarshal(raw, &res); err != nil {
					r.HarnessError(err.Error())
					return
				}
				if res.HarnessErr != "" {
					r.HarnessError(fmt.Sprintf("family %s history %v: %s", f.Name, t.Hist, res.HarnessErr))
					return
				}
				for _, s := range res.Succs {
					st.Transitions++
					for k, v := range s.Extra {
						if st.Extra == nil {
							st.Extra = map[string]int{}
						}
						st.Extra[k] += v
					}
					if s.Leaf {
						st.Leaves++
					}
					st.FPs[s.FP] = struct{}{}
					hist := append(append([]string{}, t.Hist...), s.Letter)
					for _, dis := range s.Dis {
						if dis.Has("CAP") {
							r.Cap(dis.Msg)
							continue
						}
						if dis.Has(r.Prop) {
							sig := dis.Sig
							if sig == "" {
								sig = Signature(dis.Msg)
							}
							r.Report(eng.Violation{Sig: sig, Msg: fmt.Sprintf("%s after %v [%s, %s]", dis.Msg, hist, f.Name, f.Cfgs[ci]),
								Replay: map[string]any{"family": f.Name, "cfg_index": ci, "cfg": f.Cfgs[ci].String(), "prefix": f.Prefix, "history": hist, "expected_vs_observed": dis.Msg}})
						} else {
							for _, p := range dis.Props {
								r.OtherProperty(p)
							}
						}
					}
					if s.Leaf || s.Fatal || s.Key == "" {
						continue
					}
					next = append(next, nx{s.Key, hist})
				}
			})
			// deterministic representatives and frontier order regardless of worker timing
			sort.Slice(next, func(i, j int) bool { return strings.Join(next[i].hist, " ") < strings.Join(next[j].hist, " ") })
			frontier = frontier[:0]
			for _, n := range next {
				if _, ok := seen[n.key]; !ok {
					seen[n.key] = struct{}{}
					st.States++
					frontier = append(frontier, n.hist)
				}
			}
			if d > st.Depth {
				st.Depth = d
			}
			if len(r.Samples) < 6 && len(frontier) > 0 {
				r.Samples = append(r.Samples, map[string]any{"family": f.Name, "cfg": f.Cfgs[ci].String(), "depth": d, "history": frontier[len(frontier)/2]})
			}
			if os.Getenv("VERIF_VERBOSE") != "" {
				fmt.Fprintf(os.Stderr, "  %s cfg %d depth %d: frontier %d states %d transitions %d (%.1fs)\n", f.Name, ci, d, len(frontier), st.States, st.Transitions, r.Elapsed().Seconds())
			}
		}
	}
}

// Signature strips incidental numbers from a disagreement message so that
// the same kind of failure groups together.
func Signature(msg string) string {
	var b strings.Builder
	inNum := false
	for _, c := range msg {
		if c >= '0' && c <= '9' {
			if !inNum {
				b.WriteByte('#')
				inNum = true
			}
			continue
		}
		inNum = false
		b.WriteRune(c)
	}
	s := b.String()
	if i := strings.Index(s, " [live"); i > 0 {
		s = s[:i]
	}
	if len(s) > 160 {
		s = s[:160]
	}
	return s
}
