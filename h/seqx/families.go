package seqx

import (
	"fmt"
	"strconv"
	"strings"

	"verif/h/drv"
)

// Roll2 rolls a segment over after two single-message publishes (the test is
// on the data file size before the append) for both format versions.
const Roll2 = 60

var (
	cfgBoth  = drv.Cfg{Keys: true, Times: true, Rollover: Roll2, Ver: 2}
	cfgNone  = drv.Cfg{Rollover: Roll2, Ver: 2}
	cfgKeys  = drv.Cfg{Keys: true, Rollover: Roll2, Ver: 2}
	cfgTimes = drv.Cfg{Times: true, Rollover: Roll2, Ver: 2}
)

func withVer(c drv.Cfg, v int) drv.Cfg { c.Ver = v; return c }

// pub builds a publish letter of n messages: keys alternate a/b starting
// with the parity of the next offset, times advance by dts (cyclic).
func pub(w *drv.World, n int, dts ...int) string {
	var sp []string
	for i := 0; i < n; i++ {
		k := int((w.M.Next + int64(i)) % 2)
		dt := 1
		if len(dts) > 0 {
			dt = dts[i%len(dts)]
		}
		sp = append(sp, fmt.Sprintf("%d/%d/u", k, dt))
	}
	return "P:" + strings.Join(sp, ",")
}

func liveOffsets(w *drv.World) []int64 {
	out := make([]int64, len(w.M.Live))
	for i, m := range w.M.Live {
		out[i] = m.Off
	}
	return out
}

// lastSegmentLive returns the live offsets at or above the newest segment's base.
func lastSegmentLive(w *drv.World) []int64 {
	bases, _ := drv.SegVersions(w.Dir)
	if len(bases) == 0 {
		return nil
	}
	base := bases[len(bases)-1]
	var out []int64
	for _, m := range w.M.Live {
		if m.Off >= base {
			out = append(out, m.Off)
		}
	}
	return out
}

// segmentLive returns the live offsets of the i-th segment (by base order).
func segmentLive(w *drv.World, i int) []int64 {
	bases, _ := drv.SegVersions(w.Dir)
	if i >= len(bases) {
		return nil
	}
	lo := bases[i]
	hi := int64(1 << 62)
	if i+1 < len(bases) {
		hi = bases[i+1]
	}
	var out []int64
	for _, m := range w.M.Live {
		if m.Off >= lo && m.Off < hi {
			out = append(out, m.Off)
		}
	}
	return out
}

func dedupe(ls []string) []string {
	seen := map[string]bool{}
	var out []string
	for _, l := range ls {
		if !seen[l] {
			seen[l] = true
			out = append(out, l)
		}
	}
	return out
}

func delLetter(offs []int64) string { return "D:" + drv.JoinInts(offs) }

func itoa(i int64) string { return strconv.FormatInt(i, 10) }

const maxMsgs = 8

func coreLetters(w *drv.World) []string {
	var ls []string
	ls = append(ls, "P:")
	for n := 1; n <= 3; n++ {
		if w.M.Next+int64(n) <= maxMsgs {
			ls = append(ls, pub(w, n))
		}
	}
	for _, o := range liveOffsets(w) {
		ls = append(ls, "D:"+itoa(o))
	}
	if len(w.M.Live) > 1 {
		ls = append(ls, delLetter(liveOffsets(w)))
	}
	if l := lastSegmentLive(w); len(l) > 1 && len(l) < len(w.M.Live) {
		ls = append(ls, delLetter(l))
	}
	ls = append(ls, "R:", "R:rec", "R:chk", "RX:all", "G:0", "S")
	return dedupe(ls)
}

func init() {
	Register(&Family{
		Name:    "core",
		Cfgs:    []drv.Cfg{cfgBoth},
		Letters: coreLetters,
		Depth:   map[string]int{"quick": 5, "thorough": 7},
		Obs:     drv.ObsAll,
		KeySet:  []int{0, 1},
	})
	Register(&Family{
		Name:    "cfg",
		Cfgs:    []drv.Cfg{cfgNone, cfgKeys, cfgTimes, withVer(cfgBoth, 1)},
		Letters: coreLetters,
		Depth:   map[string]int{"quick": 4, "thorough": 6},
		Obs:     drv.ObsAll,
		KeySet:  []int{0, 1},
	})
}
