package seqx

import (
	"fmt"
	"sort"
	"strconv"
	"strings"

	"verif/h/drv"
)

// Roll2 rolls a segment over after two single-message publishes (the test is
// on the data file size before the append) for both format versions.
const Roll2 = 60

var (
	cfgBoth  = drv.Cfg{Keys: true, Times: true, Rollover: Roll2, Ver: 2}
	cfgNone  = drv.Cfg{Rollover: Roll2, Ver: 2}
	cfgKeys  = drv.Cfg{Keys: true, Rollover: Roll2, Ver: 2}
	cfgTimes = drv.Cfg{Times: true, Rollover: Roll2, Ver: 2}
)

func withVer(c drv.Cfg, v int) drv.Cfg    { c.Ver = v; return c }
func withRoll(c drv.Cfg, r int64) drv.Cfg { c.Rollover = r; return c }
func withKeep(c drv.Cfg, k bool) drv.Cfg  { c.Keep = k; return c }
func allIdx(v int) []drv.Cfg {
	return []drv.Cfg{withVer(cfgBoth, v), withVer(cfgNone, v), withVer(cfgKeys, v), withVer(cfgTimes, v)}
}

// pub builds a publish letter of n messages: keys alternate a/b with the
// parity of the offset, times advance by dts (cyclic, default +1).
func pub(w *drv.World, n int, dts ...int) string {
	var sp []string
	for i := 0; i < n; i++ {
		k := int((w.M.Next + int64(i)) % 2)
		dt := 1
		if len(dts) > 0 {
			dt = dts[i%len(dts)]
		}
		sp = append(sp, fmt.Sprintf("%d/%d/u", k, dt))
	}
	return "P:" + strings.Join(sp, ",")
}

func liveOffsets(w *drv.World) []int64 {
	out := make([]int64, len(w.M.Live))
	for i, m := range w.M.Live {
		out[i] = m.Off
	}
	return out
}

// segmentLive returns the live offsets of the i-th segment (by base order);
// i < 0 counts from the newest.
func segmentLive(w *drv.World, i int) []int64 {
	bases, _ := drv.SegVersions(w.Dir)
	sort.Slice(bases, func(a, b int) bool { return bases[a] < bases[b] })
	if i < 0 {
		i += len(bases)
	}
	if i < 0 || i >= len(bases) {
		return nil
	}
	lo := bases[i]
	hi := int64(1 << 62)
	if i+1 < len(bases) {
		hi = bases[i+1]
	}
	var out []int64
	for _, m := range w.M.Live {
		if m.Off >= lo && m.Off < hi {
			out = append(out, m.Off)
		}
	}
	return out
}

func numSegments(w *drv.World) int {
	b, _ := drv.SegVersions(w.Dir)
	return len(b)
}

func dedupe(ls []string) []string {
	seen := map[string]bool{}
	var out []string
	for _, l := range ls {
		if !seen[l] {
			seen[l] = true
			out = append(out, l)
		}
	}
	return out
}

func delLetter(offs []int64) string { return "D:" + drv.JoinInts(offs) }

func itoa(i int64) string { return strconv.FormatInt(i, 10) }

func countKind(w *drv.World, kinds ...string) int {
	n := 0
	for _, l := range w.Hist {
		k, _, _ := strings.Cut(l, ":")
		for _, x := range kinds {
			if k == x {
				n++
			}
		}
	}
	return n
}

const maxMsgs = 8

func pubs(w *drv.World, max int, sizes ...int) []string {
	var ls []string
	for _, n := range sizes {
		if n == 0 {
			ls = append(ls, "P:")
		} else if w.M.Next+int64(n) <= int64(max) {
			ls = append(ls, pub(w, n))
		}
	}
	return ls
}

func singleDeletes(w *drv.World) []string {
	var ls []string
	for _, o := range liveOffsets(w) {
		ls = append(ls, "D:"+itoa(o))
	}
	return ls
}

// firstLast returns a delete of the first and the last live message of the
// newest segment when something survives in between.
func firstLast(w *drv.World) []string {
	if l := segmentLive(w, -1); len(l) >= 3 {
		return []string{delLetter([]int64{l[0], l[len(l)-1]})}
	}
	return nil
}

func coreLetters(w *drv.World) []string {
	ls := pubs(w, maxMsgs, 0, 1, 2, 3)
	ls = append(ls, singleDeletes(w)...)
	ls = append(ls, firstLast(w)...)
	if len(w.M.Live) > 1 {
		ls = append(ls, delLetter(liveOffsets(w)))
	}
	if l := segmentLive(w, -1); len(l) > 1 && len(l) < len(w.M.Live) {
		ls = append(ls, delLetter(l))
	}
	ls = append(ls, "R:", "R:rec", "R:chk", "R:ro", "RX:all", "G:0", "S", "L")
	return dedupe(ls)
}

func tailLetters(w *drv.World) []string {
	ls := pubs(w, maxMsgs, 0, 1, 2, 3)
	ls = append(ls, firstLast(w)...)
	if n := len(w.M.Live); n > 0 {
		ls = append(ls, "D:"+itoa(w.M.Live[n-1].Off), "D:"+itoa(w.M.Live[0].Off))
		ls = append(ls, delLetter(liveOffsets(w)))
	}
	for i := 0; i < numSegments(w); i++ {
		if l := segmentLive(w, i); len(l) > 0 {
			ls = append(ls, delLetter(l))
		}
	}
	ls = append(ls, "R:", "R:rec", "R:chk", "RX:all", "S", "L")
	return dedupe(ls)
}

func rollLetters(w *drv.World) []string {
	ls := pubs(w, maxMsgs, 1, 2, 3)
	ls = append(ls, singleDeletes(w)...)
	ls = append(ls, "R:", "L")
	return ls
}

// inputs: every key/value shape, every time pattern
var inputKeys = []int{2, 3, 11, 9, 10}
var inputVals = []string{"n", "e", "L1", "L40", "L300"}

func inputLetters(rec bool) func(w *drv.World) []string {
	return func(w *drv.World) []string {
		var ls []string
		if w.M.Next < 5 {
			for _, k := range inputKeys {
				for _, v := range inputVals {
					ls = append(ls, fmt.Sprintf("P:%d/1/%s", k, v))
				}
			}
			for _, dt := range []string{"0", "-1", "z", "a-5", "a-9223372036854775808", "a9223372036854775807"} {
				ls = append(ls, fmt.Sprintf("P:0/%s/u", dt))
			}
			ls = append(ls, "P:2/1/n,3/0/e,10/-1/L300")
			// a body above 64 KiB (where the readers' length guards start to look at the file size):
			// it ends its segment and is read through the mmap reader once the next publish has rolled over
			if w.M.Next < 3 {
				ls = append(ls, "P:0/1/L70000")
				// a batch whose second message is above the 64 MiB limit is rejected as a whole
				ls = append(ls, "P:0/1/u,1/1/H")
			}
		}
		ls = append(ls, singleDeletes(w)...)
		ls = append(ls, "R:", "RX:all")
		if rec {
			ls = append(ls, "R:rec", "R:chk")
		}
		return ls
	}
}

func distinctTimes(w *drv.World) []int64 {
	seen := map[int64]bool{}
	var out []int64
	for _, m := range w.M.Live {
		if !seen[m.T] {
			seen[m.T] = true
			out = append(out, m.T)
		}
	}
	return out
}

func helperLetters(w *drv.World) []string {
	ls := pubs(w, maxMsgs, 1, 2)
	ls = append(ls, singleDeletes(w)...)
	if len(w.M.Live) > 1 {
		ls = append(ls, "DM:"+drv.JoinInts(liveOffsets(w)), "DMO:"+drv.JoinInts(liveOffsets(w)))
		l := liveOffsets(w)
		ls = append(ls, "DM:"+drv.JoinInts([]int64{l[0], l[len(l)-1]}))
	}
	if countKind(w, "TrO", "TrC", "TrS", "TrA", "CU", "CD", "CC") < 2 {
		for _, o := range liveOffsets(w) {
			ls = append(ls, "TrO:m,"+itoa(o+1))
		}
		for _, n := range []int{0, 1, len(w.M.Live) - 1} {
			if n >= 0 {
				ls = append(ls, "TrC:o,"+strconv.Itoa(n))
			}
		}
		sb := w.SizeBounds()
		if len(sb) > 3 {
			ls = append(ls, "TrS:m,"+itoa(sb[len(sb)/2]), "TrS:m,"+itoa(sb[len(sb)-4]))
		}
		for _, t := range distinctTimes(w) {
			ls = append(ls, "TrA:m,"+itoa(t), "CU:m,"+itoa(t), "CD:o,"+itoa(t))
		}
		ls = append(ls, "CC:1")
	}
	ls = append(ls, "G:0", "R:", "L")
	return dedupe(ls)
}

// collide (C09): keys with real hash collisions
func collideLetters(w *drv.World) []string {
	var ls []string
	if w.M.Next < maxMsgs {
		for _, k := range []int{4, 5, 2, 3, 6} {
			ls = append(ls, fmt.Sprintf("P:%d/1/u", k))
		}
		ls = append(ls, "P:4/1/u,5/0/u")
	}
	if w.M.Next+3 <= maxMsgs {
		// one batch X Y X: a key, the first occurrence of another key (colliding / not colliding), the
		// first key again - inside one segment and one in-memory index append, also right after a
		// message of X (a batch-level cache in the key tree goes wrong exactly here)
		ls = append(ls, "P:4/1/u,5/0/u,4/0/u", "P:4/1/u,6/0/u,4/0/u")
	}
	ls = append(ls, singleDeletes(w)...)
	ls = append(ls, "R:", "RX:all", "G:0", "L")
	return ls
}

// times (C10): non-decreasing times with equal runs across segment boundaries
func timesLetters(w *drv.World) []string {
	var ls []string
	if w.M.Next+1 <= maxMsgs {
		ls = append(ls, "P:0/0/u", "P:0/1/u")
	}
	if w.M.Next+2 <= maxMsgs {
		ls = append(ls, "P:0/0/u,1/0/u", "P:0/0/u,1/1/u")
	}
	ls = append(ls, "P:")
	ls = append(ls, singleDeletes(w)...)
	ls = append(ls, "R:", "R:rec", "RX:all", "L")
	return ls
}

// del (C12)
func delLetters(w *drv.World) []string {
	ls := pubs(w, 6, 1, 2)
	ls = append(ls, singleDeletes(w)...)
	ls = append(ls, "R:", "RX:all", "G:0", "L")
	// mixed-version layouts: the storage size of a message depends on the version of its segment
	if countKind(w, "R") < 2 {
		ls = append(ls, "R:v1,nokeep", "R:v2,nokeep", "R:v1,keep", "R:v2,keep")
	}
	return ls
}

func delLeaves(w *drv.World) []string {
	var ls []string
	n := int(w.M.Next) + 2 // offsets 0..Next+1
	if n > 8 {
		n = 8
	}
	for m := 0; m < 1<<n; m++ {
		var s []int64
		for i := 0; i < n; i++ {
			if m&(1<<i) != 0 {
				s = append(s, int64(i))
			}
		}
		ls = append(ls, "DD:"+drv.JoinInts(s))
	}
	ls = append(ls, "D:-1", "D:-2", "D:-2,3", "D:-3", "D:-1,0")
	// the multi-pass drivers over every non-empty subset of [0,Next+1]: live offsets, offsets that
	// were deleted before and offsets not assigned yet in one request (what is reported must be
	// exactly what the passes removed; a set of live offsets must go completely)
	for m := 1; m < 1<<n; m++ {
		var s []int64
		for i := 0; i < n; i++ {
			if m&(1<<i) != 0 {
				s = append(s, int64(i))
			}
		}
		ls = append(ls, "DM:"+drv.JoinInts(s), "DMO:"+drv.JoinInts(s))
	}
	return ls
}

// trim (C15): the times alphabet plus, as a first publish, a far-future time followed by a
// step back (the "no message newer than the bound is removed" clause is not conditioned on
// non-decreasing times)
func trimLetters(w *drv.World) []string {
	ls := timesLetters(w)
	if w.M.Next == 0 {
		ls = append(ls, "P:0/100/u,1/-99/u")
	}
	return ls
}

func trimLeaves(w *drv.World) []string {
	var ls []string
	modes := []string{"m", "o", "s"}
	for _, md := range modes {
		for _, b := range []int64{-2, -1} {
			ls = append(ls, fmt.Sprintf("TrO:%s,%d", md, b))
		}
		for b := int64(0); b <= w.M.Next+1; b++ {
			ls = append(ls, fmt.Sprintf("TrO:%s,%d", md, b))
		}
		for n := 0; n <= len(w.M.Live)+1; n++ {
			ls = append(ls, fmt.Sprintf("TrC:%s,%d", md, n))
		}
		for _, s := range w.SizeBounds() {
			ls = append(ls, fmt.Sprintf("TrS:%s,%d", md, s))
		}
		for _, t := range w.TimeQueries() {
			ls = append(ls, fmt.Sprintf("TrA:%s,%d", md, t))
		}
	}
	return ls
}

// kv (C16)
func kvLetters(max int) func(w *drv.World) []string {
	return func(w *drv.World) []string {
		var ls []string
		if w.M.Next < 7 {
			for _, k := range []int{0, 1, 2} {
				ls = append(ls, fmt.Sprintf("P:%d/1/u", k), fmt.Sprintf("P:%d/1/n", k))
			}
			ls = append(ls, "P:0/0/u", "P:0/0/n", "P:0/-1/u", "P:0/-1/n", "P:1/-2/n")
		}
		ls = append(ls, singleDeletes(w)...)
		ls = append(ls, "R:", "L")
		if countKind(w, "CU", "CD", "CC") < max {
			for _, t := range w.TimeQueries() {
				for _, md := range []string{"s", "m", "o"} {
					ls = append(ls, fmt.Sprintf("CU:%s,%d", md, t), fmt.Sprintf("CD:%s,%d", md, t))
				}
			}
			ls = append(ls, "CC:0", "CC:1", "CC:2")
		}
		return ls
	}
}

// versions (C17)
func versionLetters(w *drv.World) []string {
	ls := pubs(w, 6, 1, 2)
	ls = append(ls, singleDeletes(w)...)
	for _, v := range []string{"v1", "v2"} {
		for _, k := range []string{"keep", "nokeep"} {
			for _, e := range []string{"eager", "noeager"} {
				ls = append(ls, "R:"+v+","+k+","+e)
			}
		}
	}
	ls = append(ls, "Mi:1", "Mi:2", "Mi:11", "Mi:22", "L")
	if w.M.Next+3 <= maxMsgs && countKind(w, "P") < 2 {
		// one segment whose times dip and come back part of the way (t0 > t2 > t1): the index timestamp
		// is a running maximum, which every path that derives an index has to carry the same way
		ls = append(ls, "P:0/1/u,1/-3/u,0/1/u")
	}
	return ls
}

func versionLettersMid(w *drv.World) []string {
	ls := pubs(w, 8, 1, 2)
	return append(ls, versionLetters(w)[len(pubs(w, 6, 1, 2)):]...)
}

// backup (C20)
func backupLetters(w *drv.World) []string {
	nb := countKind(w, "Bk")
	var ls []string
	if nb == 0 {
		ls = pubs(w, 6, 0, 1, 2)
		ls = append(ls, singleDeletes(w)...)
		if l := segmentLive(w, -1); len(l) > 0 {
			ls = append(ls, delLetter(l))
		}
		ls = append(ls, "R:")
	} else {
		ls = pubs(w, 8, 0, 1, 2)
	}
	if nb < 3 {
		ls = append(ls, "Bk:n", "Bk:pn", "Bk:fn", "Bk:fxn", "Bk:rn", "Bk:rxn")
		if nb > 0 && w.BkClean {
			ls = append(ls, "Bk:s", "Bk:ps", "Bk:fxs", "Bk:rxs")
		}
	}
	return dedupe(ls)
}

func init() {
	Register(&Family{
		Name: "core", Cfgs: []drv.Cfg{cfgBoth}, Letters: coreLetters,
		Depth: map[string]int{"quick": 6, "thorough": 7}, Obs: drv.ObsAll &^ drv.ObsTrim, KeySet: []int{0, 1},
	})
	// every state of the core alphabet, and as leaves: each group of read calls as the very
	// first thing a freshly opened handle sees (read-write / read-only, with / without index files)
	Register(&Family{
		Name: "firstcall", Cfgs: []drv.Cfg{cfgBoth, withVer(cfgBoth, 1)}, Letters: coreLetters,
		Leaves: func(w *drv.World) []string {
			var ls []string
			for _, fl := range []string{"", "x", "r", "rx"} {
				for _, g := range []string{"w", "c", "g", "k", "t", "s", "n", "f"} {
					ls = append(ls, "F:"+fl+"/"+g)
				}
			}
			return ls
		},
		Depth: map[string]int{"quick": 5, "thorough": 6}, Obs: drv.ObsWalk | drv.ObsNext, LeafObs: drv.ObsAll, KeySet: []int{0, 1},
	})
	Register(&Family{
		Name: "cfg", Cfgs: []drv.Cfg{cfgNone, cfgKeys, cfgTimes, withVer(cfgBoth, 1), withAS(cfgBoth)}, Letters: coreLetters,
		Depth: map[string]int{"quick": 5, "thorough": 6}, Obs: drv.ObsAll &^ drv.ObsTrim, KeySet: []int{0, 1},
	})
	Register(&Family{
		Name: "tail", Cfgs: append(allIdx(2), allIdx(1)...), Letters: tailLetters,
		Depth: map[string]int{"quick": 6, "thorough": 8}, Obs: drv.ObsNext | drv.ObsWalk | drv.ObsConsume | drv.ObsGet, KeySet: []int{0, 1},
	})
	Register(&Family{
		Name:    "roll",
		Cfgs:    []drv.Cfg{withRoll(cfgBoth, 9), withRoll(cfgBoth, 100), withRoll(cfgBoth, 1<<20), withRoll(withVer(cfgBoth, 1), 1), withRoll(cfgBoth, 1)},
		Letters: rollLetters,
		Depth:   map[string]int{"quick": 5, "thorough": 7}, Obs: drv.ObsAll &^ drv.ObsTrim, KeySet: []int{0, 1},
	})
	Register(&Family{
		Name: "inputs", Cfgs: []drv.Cfg{withRoll(cfgBoth, 700), withRoll(withVer(cfgBoth, 1), 700)}, Letters: inputLetters(false),
		Depth: map[string]int{"quick": 3, "thorough": 4}, Obs: drv.ObsAll &^ drv.ObsTrim, KeySet: []int{2, 3, 11, 9, 10, 0},
		// the largest body the format accepts, second in a batch and alone, followed by one more
		// publish and a reopen (only from the initial state: every read of it copies 64 MiB)
		Leaves: func(w *drv.World) []string {
			if len(w.Hist) > 0 {
				return nil
			}
			return []string{"X:P:0/1/u,1/1/M;P:0/1/u;R:", "X:P:0/1/M;P:0/1/u;RX:all", "X:P:0/1/u;P:0/1/u,1/1/M;P:0/1/u;R:"}
		},
		LeafObs: drv.ObsWalk | drv.ObsNext | drv.ObsStat,
	})
	Register(&Family{
		Name: "inputs-nt", Cfgs: []drv.Cfg{withRoll(cfgKeys, 700), withRoll(withVer(cfgNone, 1), 400)}, Letters: inputLetters(true),
		Depth: map[string]int{"quick": 3, "thorough": 4}, Obs: drv.ObsAll &^ drv.ObsTrim, KeySet: []int{2, 3, 11, 9, 10, 0},
	})
	Register(&Family{
		Name: "helpers", Cfgs: []drv.Cfg{cfgBoth, cfgNone}, Letters: helperLetters,
		Depth: map[string]int{"quick": 4, "thorough": 5}, Obs: drv.ObsAll &^ drv.ObsTrim, KeySet: []int{0, 1},
	})
	Register(&Family{
		Name: "collide", Cfgs: []drv.Cfg{cfgKeys, cfgBoth, withVer(cfgKeys, 1)}, Letters: collideLetters,
		Depth: map[string]int{"quick": 5, "thorough": 7}, Obs: drv.ObsKey | drv.ObsWalk | drv.ObsNext, KeySet: []int{4, 5, 2, 3, 6, 7},
	})
	Register(&Family{
		Name: "times", Cfgs: []drv.Cfg{cfgTimes, cfgBoth, withVer(cfgTimes, 1)}, Letters: timesLetters,
		Depth: map[string]int{"quick": 6, "thorough": 8}, Obs: drv.ObsTime | drv.ObsWalk | drv.ObsGet | drv.ObsNext, KeySet: []int{0},
	})
	Register(&Family{
		Name: "ixfiles", Cfgs: append(allIdx(2), withVer(cfgBoth, 1), withVer(cfgNone, 1)), Letters: ixLetters,
		Depth: map[string]int{"quick": 4, "thorough": 5}, Obs: drv.ObsWalk | drv.ObsNext, KeySet: []int{0, 1},
		AtClose: func(w *drv.World) { w.CheckIndexFiles(); w.IndexSubsets(false) },
	})
	Register(&Family{
		Name: "ixfiles-all", Cfgs: []drv.Cfg{cfgBoth, withVer(cfgBoth, 1)}, Letters: ixLetters,
		Depth: map[string]int{"quick": 4, "thorough": 5}, Obs: drv.ObsWalk | drv.ObsNext, KeySet: []int{0, 1},
		AtClose: func(w *drv.World) { w.CheckIndexFiles(); w.IndexSubsets(true) },
	})
	Register(&Family{
		Name: "del", Charge: "C12", Cfgs: []drv.Cfg{cfgBoth, withVer(cfgNone, 1), withKeep(cfgKeys, true), withAS(cfgTimes)}, Letters: delLetters, Leaves: delLeaves,
		Depth: map[string]int{"quick": 5, "thorough": 6}, Obs: drv.ObsWalk | drv.ObsNext | drv.ObsGet | drv.ObsStat, KeySet: []int{0, 1},
	})
	Register(&Family{
		Name: "trim", Charge: "C15", Cfgs: []drv.Cfg{cfgBoth, cfgNone, withVer(cfgTimes, 1), withAS(cfgTimes)}, Letters: trimLetters, Leaves: trimLeaves,
		Depth: map[string]int{"quick": 4, "thorough": 5}, Obs: drv.ObsTrim | drv.ObsWalk | drv.ObsNext, LeafObs: drv.ObsWalk | drv.ObsNext | drv.ObsStat, KeySet: []int{0},
	})
	Register(&Family{
		Name: "kv", Cfgs: []drv.Cfg{cfgBoth, cfgNone, withAS(cfgKeys)}, Letters: kvLetters(2),
		Depth: map[string]int{"quick": 4, "thorough": 5}, Obs: drv.ObsWalk | drv.ObsNext | drv.ObsKey, KeySet: []int{0, 1, 2},
	})
	// one large head segment: messages are deleted from its middle, it is published to again and
	// compacted again (with the 60-byte rollover a head never holds more than a batch)
	Register(&Family{
		Name: "kv-head", Cfgs: []drv.Cfg{withRoll(cfgBoth, 1<<20)}, Letters: kvLetters(2), Prefix: []string{"P:1/1/u", "P:0/1/u", "P:0/1/u"},
		Depth: map[string]int{"quick": 4, "thorough": 5}, Obs: drv.ObsWalk | drv.ObsNext | drv.ObsKey, KeySet: []int{0, 1, 2},
	})
	// the same from a non-initial state: one message published, index files removed, reopened
	Register(&Family{
		Name: "kv-rx", Cfgs: []drv.Cfg{cfgBoth}, Letters: kvLetters(2), Prefix: []string{"P:0/1/u", "RX:all"},
		Depth: map[string]int{"quick": 3, "thorough": 4}, Obs: drv.ObsWalk | drv.ObsNext | drv.ObsKey, KeySet: []int{0, 1, 2},
	})
	Register(&Family{
		Name: "versions", Charge: "C17", Cfgs: append(allIdx(1), allIdx(2)...), Letters: versionLetters,
		Depth: map[string]int{"quick": 5, "thorough": 6}, Obs: drv.ObsAll &^ drv.ObsTrim, KeySet: []int{0, 1},
		Before: func(w *drv.World) any { return [2]any{w.SnapVersions(), w.Cfg.Keep} },
		After: func(w *drv.World, letter string, before any) {
			b := before.([2]any)
			w.CheckVersionsAfter(letter, b[0].(drv.VerSnap), b[1].(bool))
		},
	})
	// the same from a three-segment log: mixed-version logs whose first and last segment were
	// converted (delete in the oldest, rollover) while the middle one was not
	Register(&Family{
		Name: "versions-mid", Charge: "C17", Cfgs: []drv.Cfg{withVer(cfgBoth, 1), cfgBoth, withVer(cfgNone, 1)}, Letters: versionLettersMid,
		Prefix: []string{"P:0/1/u,1/1/u", "P:0/1/u,1/1/u", "P:0/1/u,1/1/u"},
		Depth:  map[string]int{"quick": 4, "thorough": 5}, Obs: drv.ObsAll &^ drv.ObsTrim, KeySet: []int{0, 1},
		Before: func(w *drv.World) any { return [2]any{w.SnapVersions(), w.Cfg.Keep} },
		After: func(w *drv.World, letter string, before any) {
			b := before.([2]any)
			w.CheckVersionsAfter(letter, b[0].(drv.VerSnap), b[1].(bool))
		},
	})
	Register(&Family{
		Name: "backup", Cfgs: []drv.Cfg{cfgBoth, withVer(cfgNone, 1)}, Letters: backupLetters,
		Depth: map[string]int{"quick": 6, "thorough": 7}, Obs: drv.ObsWalk | drv.ObsNext, KeySet: []int{0, 1},
	})
}

// crash (C05, C06): every file-system protocol of the storage layer
func crashLetters(w *drv.World) []string {
	ls := pubs(w, 6, 1, 2)
	ls = append(ls, singleDeletes(w)...)
	for i := 0; i < numSegments(w); i++ {
		if l := segmentLive(w, i); len(l) > 1 {
			ls = append(ls, delLetter(l))
		}
	}
	other := "v1"
	mi := "Mi:1"
	if w.Cfg.Ver == 1 {
		other, mi = "v2", "Mi:2"
	}
	ls = append(ls, "S", "R:", "R:rec", "R:"+other+",eager", mi)
	return dedupe(ls)
}

func withAS(c drv.Cfg) drv.Cfg { c.AutoSync = true; return c }

func init() {
	Register(&Family{
		Name: "crash", Cfgs: []drv.Cfg{cfgBoth, withAS(cfgBoth), withVer(cfgBoth, 1), withAS(cfgNone)}, Letters: crashLetters,
		Depth: map[string]int{"quick": 3, "thorough": 5}, KeySet: []int{0, 1},
	})
}

func ixLetters(w *drv.World) []string {
	ls := pubs(w, 6, 1, 2)
	ls = append(ls, singleDeletes(w)...)
	if l := segmentLive(w, -1); len(l) > 1 {
		ls = append(ls, delLetter(l))
	}
	ls = append(ls, "R:", "R:rec", "R:ro", "RX:all", "Mi:1", "Mi:2", "L")
	return dedupe(ls)
}
