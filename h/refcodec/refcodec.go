// Package refcodec is an independent implementation of klevdb's on-disk
// formats, written from the documented layout and sharing no code with
// klevdb. It is the oracle for C07, C11, C13, C14.
//
//	V1 log:   no file header; record = off8 time8 klen4 vlen4 crc4(key++val) key val
//	V2 log:   file header FF 'k' 'l' 'e' 'v' 's' 01 00;
//	          record = crc4(over everything after it) off8 time8 klen4 vlen4 key val DEADBEEFFEEDFACE
//	V1 index: no file header; V2 index: header FF 'k' 'l' 'e' 'v' 'i' 01 flags (1=times, 2=keys)
//	          item = off8 pos8 [ts8] [fnv1a64(key)8]; ts = running max of message times
//
// All integers big endian; CRC is CRC-32C (Castagnoli).
package refcodec

import (
	"encoding/binary"
	"errors"
	"hash/crc32"
)

var castagnoli = crc32.MakeTable(crc32.Castagnoli)

var LogMagic = []byte{0xFF, 'k', 'l', 'e', 'v', 's'}
var IndexMagic = []byte{0xFF, 'k', 'l', 'e', 'v', 'i'}

const MaxBody = 64 * 1024 * 1024

type Rec struct {
	Off  int64
	T    int64 // unix micro
	Key  []byte
	Val  []byte
	Pos  int64 // position of the record in the file
	Size int64 // bytes the record occupies
}

func LogHeader(ver int) []byte {
	if ver == 1 {
		return nil
	}
	return []byte{0xFF, 'k', 'l', 'e', 'v', 's', 1, 0}
}

func IndexHeader(ver int, times, keys bool) []byte {
	if ver == 1 {
		return nil
	}
	var fl byte
	if times {
		fl |= 1
	}
	if keys {
		fl |= 2
	}
	return []byte{0xFF, 'k', 'l', 'e', 'v', 'i', 1, fl}
}

// Encode renders one record.
func Encode(ver int, off, t int64, key, val []byte) []byte {
	if ver == 1 {
		b := make([]byte, 28, 28+len(key)+len(val))
		binary.BigEndian.PutUint64(b[0:], uint64(off))
		binary.BigEndian.PutUint64(b[8:], uint64(t))
		binary.BigEndian.PutUint32(b[16:], uint32(len(key)))
		binary.BigEndian.PutUint32(b[20:], uint32(len(val)))
		b = append(b, key...)
		b = append(b, val...)
		binary.BigEndian.PutUint32(b[24:], crc32.Checksum(b[28:], castagnoli))
		return b
	}
	b := make([]byte, 28, 36+len(key)+len(val))
	binary.BigEndian.PutUint64(b[4:], uint64(off))
	binary.BigEndian.PutUint64(b[12:], uint64(t))
	binary.BigEndian.PutUint32(b[20:], uint32(len(key)))
	binary.BigEndian.PutUint32(b[24:], uint32(len(val)))
	b = append(b, key...)
	b = append(b, val...)
	b = append(b, 0xDE, 0xAD, 0xBE, 0xEF, 0xFE, 0xED, 0xFA, 0xCE)
	binary.BigEndian.PutUint32(b[0:], crc32.Checksum(b[4:], castagnoli))
	return b
}

// DetectVersion reads the version from the first bytes of a log file: 0-byte
// file and headerless data are V1.
func DetectVersion(data []byte) int {
	if len(data) >= 8 && string(data[:6]) == string(LogMagic) {
		if data[6] == 1 && data[7] == 0 {
			return 2
		}
		return 0
	}
	return 1
}

var ErrBad = errors.New("refcodec: invalid record")

// DecodeAt parses one record at pos. ok=false, err=nil means clean end of
// file (pos == len(data)); err != nil means the bytes from pos do not form a
// valid record (short, bad length, bad CRC, bad trailer).
func DecodeAt(ver int, data []byte, pos int64) (r Rec, ok bool, err error) {
	if pos == int64(len(data)) {
		return Rec{}, false, nil
	}
	if pos > int64(len(data)) || int64(len(data))-pos < 28 {
		return Rec{}, false, ErrBad
	}
	h := data[pos:]
	if ver == 1 {
		off := int64(binary.BigEndian.Uint64(h[0:]))
		t := int64(binary.BigEndian.Uint64(h[8:]))
		kl := int32(binary.BigEndian.Uint32(h[16:]))
		vl := int32(binary.BigEndian.Uint32(h[20:]))
		crc := binary.BigEndian.Uint32(h[24:])
		if kl < 0 || vl < 0 || int(kl)+int(vl) > MaxBody {
			return Rec{}, false, ErrBad
		}
		n := int64(28) + int64(kl) + int64(vl)
		if int64(len(h)) < n {
			return Rec{}, false, ErrBad
		}
		if crc32.Checksum(h[28:n], castagnoli) != crc {
			return Rec{}, false, ErrBad
		}
		return Rec{Off: off, T: t, Key: cp(h[28 : 28+int64(kl)]), Val: cp(h[28+int64(kl) : n]), Pos: pos, Size: n}, true, nil
	}
	crc := binary.BigEndian.Uint32(h[0:])
	off := int64(binary.BigEndian.Uint64(h[4:]))
	t := int64(binary.BigEndian.Uint64(h[12:]))
	kl := int32(binary.BigEndian.Uint32(h[20:]))
	vl := int32(binary.BigEndian.Uint32(h[24:]))
	if kl < 0 || vl < 0 || int(kl)+int(vl) > MaxBody {
		return Rec{}, false, ErrBad
	}
	n := int64(36) + int64(kl) + int64(vl)
	if int64(len(h)) < n {
		return Rec{}, false, ErrBad
	}
	if crc32.Checksum(h[4:n], castagnoli) != crc {
		return Rec{}, false, ErrBad
	}
	if string(h[n-8:n]) != "\xDE\xAD\xBE\xEF\xFE\xED\xFA\xCE" {
		return Rec{}, false, ErrBad
	}
	return Rec{Off: off, T: t, Key: cp(h[28 : 28+int64(kl)]), Val: cp(h[28+int64(kl) : n-8]), Pos: pos, Size: n}, true, nil
}

func cp(b []byte) []byte {
	if len(b) == 0 {
		return nil
	}
	return append([]byte(nil), b...)
}

// ParseLog returns the longest prefix of valid records of a log file, the
// file position after it, and whether the whole file was consumed.
// ver is the detected version (0 = unknown header: nothing parses).
func ParseLog(data []byte) (ver int, recs []Rec, end int64, clean bool) {
	ver = DetectVersion(data)
	if ver == 0 {
		return 0, nil, 0, false
	}
	pos := int64(0)
	if ver == 2 {
		pos = 8
	}
	for {
		r, ok, err := DecodeAt(ver, data, pos)
		if err != nil {
			return ver, recs, pos, false
		}
		if !ok {
			return ver, recs, pos, true
		}
		recs = append(recs, r)
		pos += r.Size
	}
}

func FNV1a64(key []byte) uint64 {
	h := uint64(14695981039346656037)
	for _, c := range key {
		h ^= uint64(c)
		h *= 1099511628211
	}
	return h
}

// ItemSize is the size of one index item.
func ItemSize(times, keys bool) int {
	n := 16
	if times {
		n += 8
	}
	if keys {
		n += 8
	}
	return n
}

// DeriveIndex computes the bytes of the index file for records (header of
// the given index version included).
func DeriveIndex(ver int, times, keys bool, recs []Rec) []byte {
	b := append([]byte(nil), IndexHeader(ver, times, keys)...)
	var ts int64
	for _, r := range recs {
		b = binary.BigEndian.AppendUint64(b, uint64(r.Off))
		b = binary.BigEndian.AppendUint64(b, uint64(r.Pos))
		if times {
			if r.T > ts {
				ts = r.T
			}
			b = binary.BigEndian.AppendUint64(b, uint64(ts))
		}
		if keys {
			b = binary.BigEndian.AppendUint64(b, FNV1a64(r.Key))
		}
	}
	return b
}

// IndexVersion detects the version of an index file: 0-byte or headerless = 1.
func IndexVersion(data []byte) int {
	if len(data) >= 8 && string(data[:6]) == string(IndexMagic) {
		return 2
	}
	return 1
}

type Item struct {
	Off, Pos, TS int64
	Hash         uint64
}

// ParseIndex splits an index file into items; ok=false if the size does not fit.
func ParseIndex(data []byte, times, keys bool) (ver int, items []Item, ok bool) {
	ver = IndexVersion(data)
	body := data
	if ver == 2 {
		body = data[8:]
	}
	sz := ItemSize(times, keys)
	if len(body)%sz != 0 {
		return ver, nil, false
	}
	for p := 0; p < len(body); p += sz {
		it := Item{Off: int64(binary.BigEndian.Uint64(body[p:])), Pos: int64(binary.BigEndian.Uint64(body[p+8:]))}
		q := p + 16
		if times {
			it.TS = int64(binary.BigEndian.Uint64(body[q:]))
			q += 8
		}
		if keys {
			it.Hash = binary.BigEndian.Uint64(body[q:])
		}
		items = append(items, it)
	}
	return ver, items, true
}
