// Package dmgx is engine E3: exhaustive damage of stored bytes. Plain nested
// loops over every element of a damage space; the real Recover / Check / read
// API is run on every damaged copy and compared with the reference parser.
package dmgx

import (
	"bytes"
	"encoding/json"
	"fmt"
	"os"
	"path/filepath"
	"sort"
	"strings"
	"time"

	"github.com/klev-dev/klevdb"
	"github.com/klev-dev/klevdb/pkg/vshim/vrand"

	"verif/h/refcodec"
)

type Shape struct {
	Name string
	KV   [][2]int // key length, value length per record
	DT   []int64  // time of record i relative to 1s (default: i/2, non-decreasing)
	Gap  int      // > 0: the message with this offset is deleted (through the real Delete) before the damage: offsets in a segment are increasing, not contiguous
	Base int      // > 0: that many sealed one-message segments precede the head, whose base offset is Base
}

var Shapes07 = []Shape{
	{"1rec", [][2]int{{1, 3}}, nil, 0, 0},
	{"2rec", [][2]int{{0, 0}, {1, 1}}, nil, 0, 0},
	{"3rec", [][2]int{{3, 40}, {0, 1}, {40, 0}}, nil, 0, 0},
	{"4rec", [][2]int{{1, 1}, {1, 1}, {1, 1}, {1, 1}}, nil, 0, 0},
	// times that drop and partly rise again: the index timestamp is a running maximum
	{"3rec-nonmonotone", [][2]int{{1, 2}, {2, 1}, {1, 1}}, []int64{10, 5, 7}, 0, 0},
	{"4rec-gap", [][2]int{{1, 1}, {2, 2}, {1, 3}, {3, 1}}, nil, 1, 0},
	// the same with times that drop: the index the delete-rewrite leaves must still be the derived one
	{"4rec-nonmonotone-gap", [][2]int{{1, 1}, {2, 2}, {1, 3}, {3, 1}}, []int64{10, 5, 7, 6}, 1, 0},
	// a head with a non-zero base offset behind two sealed segments (which must not be touched)
	{"3rec-base2", [][2]int{{1, 1}, {0, 2}, {2, 0}}, nil, 0, 2},
	// bodies that cross the 255/256 length boundary
	{"3rec-long", [][2]int{{255, 1}, {0, 256}, {257, 300}}, nil, 0, 0},
	// times before the epoch, dropping and rising through zero (the index timestamp is clamped at 0)
	{"4rec-preepoch", [][2]int{{1, 1}, {1, 0}, {0, 1}, {2, 2}}, []int64{-1_000_010, -1_000_020, -1_000_000, -999_990}, 0, 0},
}

type Layout struct{ Times, Keys bool }

var Layouts = []Layout{{false, false}, {true, false}, {false, true}, {true, true}}

// Task is one shard of a damage space.
type Task struct {
	Prop   string
	Shape  int
	Layout int
	Ver    int
	Lo, Hi int
	Tier   string
}

type Problem struct {
	Sig    string
	Msg    string
	Damage string
}

type Result struct {
	Cases      int
	Outcomes   map[string]int // distinct damage outcomes (classification) -> count
	Problems   []Problem
	HarnessErr string
	Sample     string
}

func pat(n, seed int) []byte {
	if n == 0 {
		return nil
	}
	b := make([]byte, n)
	for i := range b {
		b[i] = byte(seed*37 + i*11 + 5)
	}
	return b
}

func opts(l Layout, ver int) klevdb.Options {
	v := klevdb.V2
	if ver == 1 {
		v = klevdb.V1
	}
	return klevdb.Options{KeyIndex: l.Keys, TimeIndex: l.Times, Rollover: 1 << 20, Version: klevdb.VersionOptions{NewSegmentsVersion: v}}
}

// BuildHead creates a one-segment log in dir with the real writer.
func BuildHead(dir string, sh Shape, l Layout, ver int) error {
	vrand.Reset()
	o := opts(l, ver)
	if sh.Base > 0 {
		o.Rollover = 1 // every Publish call on a non-empty head starts a new segment
	}
	lg, err := klevdb.Open(dir, o)
	if err != nil {
		return err
	}
	for i := 0; i < sh.Base; i++ {
		if _, err := lg.Publish([]klevdb.Message{{Time: time.UnixMicro(999_990 + int64(i)).UTC(), Key: pat(1, 40+i), Value: pat(2, 50+i)}}); err != nil {
			return err
		}
	}
	var msgs []klevdb.Message
	for i, kv := range sh.KV {
		dt := int64(i / 2)
		if sh.DT != nil {
			dt = sh.DT[i]
		}
		msgs = append(msgs, klevdb.Message{Time: time.UnixMicro(1_000_000 + dt).UTC(), Key: pat(kv[0], i+1), Value: pat(kv[1], i+7)})
	}
	if _, err := lg.Publish(msgs); err != nil {
		return err
	}
	if sh.Gap > 0 {
		if _, _, err := lg.Delete(map[int64]struct{}{int64(sh.Base + sh.Gap): {}}); err != nil {
			return err
		}
	}
	return lg.Close()
}

// Damage is one element of the damage space of C07.
type Damage struct {
	Desc  string
	Log   []byte // nil = unchanged
	Index []byte // nil = unchanged
	NoIdx bool   // index removed
}

// cloneb copies b; the copy of an empty slice is empty but not nil (nil means "file unchanged" in a Damage).
func cloneb(b []byte) []byte { return append([]byte{}, b...) }

func prand(n, seed int) []byte {
	b := make([]byte, n)
	x := uint32(seed*2654435761 + 12345)
	for i := range b {
		x = x*1664525 + 1013904223
		b[i] = byte(x >> 24)
	}
	return b
}

// Damages07 enumerates the whole damage space for one base segment.
func Damages07(log, idx []byte, ver int, l Layout, recs []refcodec.Rec) []Damage {
	var ds []Damage
	hdr := 0
	if ver == 2 {
		hdr = 8
	}
	// the segment as the real writer (and delete-rewrite) left it: Check accepts it, Recover is a no-op
	ds = append(ds, Damage{Desc: "no damage"})
	// truncation to every length (0, or at/after the file header)
	for L := 0; L < len(log); L++ {
		if L > 0 && L < 8 {
			continue // the 8-byte header (V1: the first offset field, which identifies the version) is atomic
		}
		ds = append(ds, Damage{Desc: fmt.Sprintf("log truncated to %d", L), Log: cloneb(log[:L])})
	}
	if ver == 2 {
		// every single byte after the file header altered three ways
		for p := hdr; p < len(log); p++ {
			for vi, nb := range []byte{^log[p], log[p] ^ 1, 0} {
				if nb == log[p] {
					continue
				}
				d := cloneb(log)
				d[p] = nb
				ds = append(ds, Damage{Desc: fmt.Sprintf("log byte %d %#x->%#x (variant %d)", p, log[p], nb, vi), Log: d})
			}
		}
		// tails of every length up to two records
		maxTail := 0
		for _, r := range recs {
			if int(r.Size) > maxTail {
				maxTail = int(r.Size)
			}
		}
		maxTail *= 2
		for n := 1; n <= maxTail; n++ {
			ds = append(ds, Damage{Desc: fmt.Sprintf("log + %d zero bytes", n), Log: append(cloneb(log), make([]byte, n)...)})
			ds = append(ds, Damage{Desc: fmt.Sprintf("log + %d 0xFF bytes", n), Log: append(cloneb(log), bytes.Repeat([]byte{0xFF}, n)...)})
			ds = append(ds, Damage{Desc: fmt.Sprintf("log + %d pseudo-random bytes", n), Log: append(cloneb(log), prand(n, n)...)})
		}
		// a valid record of a later offset glued after garbage must not resurrect
		ds = append(ds, Damage{Desc: "log + 5 zero bytes + a valid record", Log: append(append(cloneb(log), make([]byte, 5)...), refcodec.Encode(2, 99, 5, []byte("k"), []byte("v"))...)})
	}
	// every log damage again with the index file missing at the same time
	for _, d := range append([]Damage(nil), ds...) {
		if d.Log != nil {
			ds = append(ds, Damage{Desc: d.Desc + " + index missing", Log: d.Log, NoIdx: true})
		}
	}
	// index damage, log intact
	ds = append(ds, Damage{Desc: "index missing", NoIdx: true})
	for L := 0; L < len(idx); L++ {
		ds = append(ds, Damage{Desc: fmt.Sprintf("index truncated to %d", L), Index: cloneb(idx[:L])})
	}
	for p := 0; p < len(idx); p++ {
		tried := map[byte]bool{idx[p]: true}
		for _, nb := range []byte{^idx[p], idx[p] ^ 1, 0, 1, 0xFF} {
			if tried[nb] {
				continue
			}
			tried[nb] = true
			d := cloneb(idx)
			d[p] = nb
			desc := fmt.Sprintf("index byte %d %#x->%#x", p, idx[p], nb)
			if nb == ^idx[p] {
				desc = fmt.Sprintf("index byte %d inverted", p)
			}
			ds = append(ds, Damage{Desc: desc, Index: d})
		}
	}
	isz := refcodec.ItemSize(l.Times, l.Keys)
	last := recs[len(recs)-1]
	for extra := 1; extra <= 2; extra++ {
		d := cloneb(idx)
		for e := 1; e <= extra; e++ {
			it := make([]byte, isz)
			putU64(it[0:], uint64(last.Off+int64(e)))
			putU64(it[8:], uint64(last.Pos+last.Size*int64(e)))
			if l.Times {
				putU64(it[16:], uint64(last.T))
			}
			d = append(d, it...)
		}
		ds = append(ds, Damage{Desc: fmt.Sprintf("index + %d plausible extra items", extra), Index: d})
	}
	for _, ol := range Layouts {
		if ol != l {
			ds = append(ds, Damage{Desc: fmt.Sprintf("index replaced by the one of layout %+v", ol), Index: refcodec.DeriveIndex(ver, ol.Times, ol.Keys, recs)})
		}
	}
	return ds
}

func putU64(b []byte, v uint64) {
	for i := 0; i < 8; i++ {
		b[i] = byte(v >> (56 - 8*i))
	}
}

func readFiles(dir string) map[string][]byte {
	out := map[string][]byte{}
	ents, _ := os.ReadDir(dir)
	for _, e := range ents {
		if e.Name() == ".lock" {
			continue
		}
		b, _ := os.ReadFile(filepath.Join(dir, e.Name()))
		out[e.Name()] = b
	}
	return out
}

func names(m map[string][]byte) []string {
	var n []string
	for k := range m {
		n = append(n, k)
	}
	sort.Strings(n)
	return n
}

func headNames(base int) (string, string) {
	return fmt.Sprintf("%020d.log", base), fmt.Sprintf("%020d.index", base)
}

func safely(f func()) (p string) {
	defer func() {
		if r := recover(); r != nil {
			p = fmt.Sprint(r)
		}
	}()
	f()
	return ""
}

var workerDir string

func scratch() string {
	if workerDir == "" {
		root := os.Getenv("VERIF_SCRATCH")
		if root == "" {
			root = "/dev/shm"
		}
		var err error
		workerDir, err = os.MkdirTemp(root, fmt.Sprintf("verif.%d.", os.Getpid()))
		if err != nil {
			panic(err)
		}
	}
	return workerDir
}

func CleanupWorker() {
	if workerDir != "" {
		_ = os.RemoveAll(workerDir)
	}
}

// Worker dispatches a shard.
func Worker(raw json.RawMessage) any {
	var t Task
	if err := json.Unmarshal(raw, &t); err != nil {
		return Result{HarnessErr: err.Error()}
	}
	var res Result
	p := safely(func() {
		switch t.Prop {
		case "C07":
			res = run07(t)
		case "C14":
			res = run14(t)
		default:
			res = Result{HarnessErr: "unknown dmgx property " + t.Prop}
		}
	})
	if p != "" {
		res.HarnessErr = "panic in dmgx worker: " + p
	}
	return res
}

// Base07 builds the base segment and returns its files and damage list.
func Base07(dir string, t Task) (log, idx []byte, recs []refcodec.Rec, ds []Damage, err error) {
	logName, idxName := headNames(Shapes07[t.Shape].Base)
	_ = os.RemoveAll(dir)
	if err = os.MkdirAll(dir, 0o700); err != nil {
		return
	}
	if err = BuildHead(dir, Shapes07[t.Shape], Layouts[t.Layout], t.Ver); err != nil {
		return
	}
	log, _ = os.ReadFile(filepath.Join(dir, logName))
	idx, _ = os.ReadFile(filepath.Join(dir, idxName))
	_, recs, _, _ = refcodec.ParseLog(log)
	wantRecs := len(Shapes07[t.Shape].KV)
	if Shapes07[t.Shape].Gap > 0 {
		wantRecs--
	}
	if len(recs) != wantRecs {
		err = fmt.Errorf("reference parser sees %d records in a freshly written %d-record segment", len(recs), wantRecs)
		return
	}
	ds = Damages07(log, idx, t.Ver, Layouts[t.Layout], recs)
	return
}

func run07(t Task) Result {
	res := Result{Outcomes: map[string]int{}}
	base := filepath.Join(scratch(), "base07")
	log, idx, recs, ds, err := Base07(base, t)
	if err != nil {
		return Result{HarnessErr: err.Error()}
	}
	l := Layouts[t.Layout]
	o := opts(l, t.Ver)
	baseOff := Shapes07[t.Shape].Base
	logName, idxName := headNames(baseOff)
	// the sealed segments in front of the head (none for base offset 0)
	pre := readFiles(base)
	delete(pre, logName)
	delete(pre, idxName)
	put := func(dir string, dlog, didx []byte, noIdx bool) {
		_ = os.RemoveAll(dir)
		_ = os.MkdirAll(dir, 0o700)
		for n, b := range pre {
			_ = os.WriteFile(filepath.Join(dir, n), b, 0o600)
		}
		_ = os.WriteFile(filepath.Join(dir, logName), dlog, 0o600)
		if !noIdx {
			_ = os.WriteFile(filepath.Join(dir, idxName), didx, 0o600)
		}
	}
	refIdx := func(k int) [][]byte {
		return [][]byte{refcodec.DeriveIndex(1, l.Times, l.Keys, recs[:k]), refcodec.DeriveIndex(2, l.Times, l.Keys, recs[:k])}
	}
	isRef := func(b []byte, k int) bool {
		for _, r := range refIdx(k) {
			if bytes.Equal(b, r) {
				return true
			}
		}
		return false
	}
	if t.Hi > len(ds) {
		t.Hi = len(ds)
	}
	for di := t.Lo; di < t.Hi; di++ {
		d := ds[di]
		dlog, didx := log, idx
		if d.Log != nil {
			dlog = d.Log
		}
		if d.Index != nil {
			didx = d.Index
		}
		// reference verdict
		_, vrecs, end, clean := refcodec.ParseLog(dlog)
		k := len(vrecs)
		undamaged := d.Log == nil && d.Index == nil && !d.NoIdx
		wantCheck := clean && (d.NoIdx || isRef(didx, k))
		for mode := 0; mode < 2; mode++ { // 0: klevdb.Recover, 1: Open(Recover)+Close
			res.Cases++
			dir := filepath.Join(scratch(), "d07")
			put(dir, dlog, didx, d.NoIdx)
			fail := func(sig, format string, a ...any) {
				res.Problems = append(res.Problems, Problem{Sig: sig, Msg: fmt.Sprintf(format, a...), Damage: fmt.Sprintf("%s [shape %s layout %+v v%d, via %s]", d.Desc, Shapes07[t.Shape].Name, l, t.Ver, []string{"klevdb.Recover", "Open(Recover)"}[mode])})
			}
			// Check before recovery
			var cerr, oerr error
			if p := safely(func() { cerr = klevdb.Check(dir, o) }); p != "" {
				fail("panic in Check", "Check panicked: %s", p)
				continue
			}
			oc := o
			oc.Check = true
			if p := safely(func() {
				var lg klevdb.Log
				lg, oerr = klevdb.Open(dir, oc)
				if oerr == nil {
					_ = lg.Close()
				}
			}); p != "" {
				fail("panic in Open(Check)", "Open(Check) panicked: %s", p)
				continue
			}
			if (cerr == nil) != wantCheck {
				fail(fmt.Sprintf("Check verdict (want ok=%v)", wantCheck), "Check = %v, reference: log parses completely=%v (%d valid records), index matches=%v", cerr, clean, k, wantCheck)
			}
			if (oerr == nil) != wantCheck {
				fail(fmt.Sprintf("Open(Check) verdict (want ok=%v)", wantCheck), "Open(Check) = %v, reference verdict ok=%v", oerr, wantCheck)
			}
			// Open(Check) may have rebuilt a missing/short index: restore the damaged files
			put(dir, dlog, didx, d.NoIdx)
			before := readFiles(dir)
			// recover
			var rerr error
			if p := safely(func() {
				if mode == 0 {
					rerr = klevdb.Recover(dir, o)
				} else {
					or := o
					or.Recover = true
					var lg klevdb.Log
					lg, rerr = klevdb.Open(dir, or)
					if rerr == nil {
						rerr = lg.Close()
					}
				}
			}); p != "" {
				fail("panic in Recover", "Recover panicked: %s", p)
				continue
			}
			if rerr != nil {
				fail("Recover failed", "Recover failed: %v", rerr)
				continue
			}
			after := readFiles(dir)
			outcome := fmt.Sprintf("k=%d/%d clean=%v check=%v files=%s", k, len(recs), clean, wantCheck, strings.Join(names(after), ","))
			res.Outcomes[outcome]++
			// (an empty file has no version yet: opening it for writing stamps the file header of the
			// configured version on it, which is not a record)
			stamped := mode == 1 && end == 0 && len(dlog) == 0 && bytes.Equal(after[logName], refcodec.LogHeader(t.Ver))
			if !bytes.Equal(after[logName], dlog[:end]) && !stamped {
				fail("Recover: log is not the valid prefix", "after Recover the log has %d bytes, the longest valid prefix (%d records) has %d bytes (file had %d)", len(after[logName]), k, end, len(dlog))
			}
			if ib, ok := after[idxName]; ok {
				if mode == 0 {
					if !isRef(ib, k) && !(len(ib) == 0 && k == 0) {
						fail("Recover: index does not match the log", "after Recover the index (%d bytes) is not the index of the %d valid records", len(ib), k)
					}
				} else if !isRef(ib, k) {
					// Open rebuilds a missing or header-only index
					fail("Open(Recover): index does not match the log", "after Open(Recover)+Close the index (%d bytes) is not the index of the %d valid records", len(ib), k)
				}
			}
			for n, b := range after {
				if _, sealed := pre[n]; sealed {
					if !bytes.Equal(b, pre[n]) {
						fail("Recover: sealed segment changed", "Recover changed %s, a file of a sealed segment in front of the head", n)
					}
				} else if n != logName && n != idxName {
					fail("Recover: temp file left", "after Recover file %s remains", n)
				}
			}
			for n := range pre {
				if _, ok := after[n]; !ok {
					fail("Recover: sealed segment changed", "Recover removed %s, a file of a sealed segment in front of the head", n)
				}
			}
			if undamaged || (d.Log == nil && isRef(didx, k) && !d.NoIdx) {
				for n, b := range before {
					if !bytes.Equal(after[n], b) {
						fail("Recover: not a no-op on an undamaged segment", "Recover changed %s of an undamaged segment", n)
					}
				}
			}
			// Check after recovery, append, Check again
			if err := klevdb.Check(dir, o); err != nil {
				fail("Check after Recover", "Check after Recover failed: %v", err)
				continue
			}
			var perr error
			if p := safely(func() {
				lg, err := klevdb.Open(dir, oc)
				if err != nil {
					perr = fmt.Errorf("open: %w", err)
					return
				}
				if _, err := lg.Publish([]klevdb.Message{{Time: time.UnixMicro(2_000_000).UTC(), Key: []byte("new"), Value: []byte("msg")}}); err != nil {
					perr = fmt.Errorf("publish: %w", err)
				}
				var got []klevdb.Message
				off := klevdb.OffsetOldest
				for i := 0; i < 20; i++ {
					next, msgs, err := lg.Consume(off, 10)
					if err != nil {
						perr = fmt.Errorf("consume: %w", err)
						break
					}
					got = append(got, msgs...)
					if len(msgs) == 0 {
						break
					}
					off = next
				}
				if perr == nil && len(got) != baseOff+k+1 {
					perr = fmt.Errorf("scan after append returned %d messages, want %d", len(got), baseOff+k+1)
				}
				if perr == nil {
					got = got[baseOff:]
				}
				for i := 0; perr == nil && i < k; i++ {
					if got[i].Offset != vrecs[i].Off || !bytes.Equal(got[i].Key, vrecs[i].Key) || !bytes.Equal(got[i].Value, vrecs[i].Val) {
						perr = fmt.Errorf("scan after append: message %d differs from the recovered record", i)
					}
				}
				if err := lg.Close(); err != nil && perr == nil {
					perr = fmt.Errorf("close: %w", err)
				}
			}); p != "" {
				fail("panic after Recover", "append after Recover panicked: %s", p)
				continue
			}
			if perr != nil {
				fail("append after Recover", "append after Recover: %v", perr)
				continue
			}
			if err := klevdb.Check(dir, o); err != nil {
				fail("Check after append", "Check after Recover + append failed: %v", err)
			}
		}
	}
	if t.Lo < len(ds) {
		res.Sample = ds[t.Lo].Desc
	}
	return res
}
