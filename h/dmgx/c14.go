package dmgx

import (
	"bytes"
	"fmt"
	"os"
	"path/filepath"
	"runtime/metrics"
	"sort"
	"strings"
	"time"

	"github.com/klev-dev/klevdb"
	"github.com/klev-dev/klevdb/pkg/vshim/vrand"

	"verif/h/refcodec"
)

// rec14 is one message of a base log: key, value, time relative to 1 s.
type rec14 struct {
	K, V string
	DT   int64
}

// Log14 is a base log given segment by segment.
type Log14 struct {
	Name    string
	Segs    [][]rec14
	T0      int64 // time of DT 0 in microseconds (0: one second)
	DelLast bool  // every message of the last segment is deleted again: the log ends in an empty head
}

func (l Log14) t0() int64 {
	if l.T0 != 0 {
		return l.T0
	}
	return 1_000_000
}

func uniform14(name string, segs, perSeg int) Log14 {
	l := Log14{Name: name}
	n := segs * perSeg
	for i := 0; i < n; i++ {
		key := string("ab"[i%2])
		if i == n-2 {
			key = "c" // a key that lives only in the newest segment
		}
		if i%perSeg == 0 {
			l.Segs = append(l.Segs, nil)
		}
		// the last message of a segment and the first of the next share their time
		l.Segs[len(l.Segs)-1] = append(l.Segs[len(l.Segs)-1], rec14{key, fmt.Sprintf("v%02d", i), int64(i - i/perSeg)})
	}
	return l
}

// Shapes14: the base logs (all V2, both indexes).
var Shapes14 = []Log14{
	uniform14("3 segments x 2", 3, 2),
	uniform14("3 segments x 3", 3, 3),
	// records of different sizes, an empty key, empty values
	// (times around 40 Mi microseconds: read as a V1 length field they are far above the file size)
	{Name: "3 segments, mixed sizes", Segs: [][]rec14{
		{{"a", "", 0}, {"", "v01", 1}},
		{{"b", "0123456789012345678901234567890123456789", 1}, {"a", "x", 2}},
		{{"c", "y", 2}, {"b", "", 3}},
	}, T0: 40 << 20},
	// one-message segments, equal times running through three segments
	{Name: "4 segments 1-2-1-2", Segs: [][]rec14{
		{{"a", "v00", 0}},
		{{"b", "v01", 0}, {"a", "v02", 1}},
		{{"a", "v03", 1}},
		{{"c", "v04", 1}, {"b", "v05", 2}},
	}},
	uniform14("5 segments x 2", 5, 2),
	// sealed segments followed by an empty head (the whole head was deleted)
	{Name: "3 segments x 2 + empty head", Segs: append(uniform14("", 3, 2).Segs, []rec14{{"a", "v06", 4}, {"b", "v07", 5}}), DelLast: true},
}

type pub struct {
	Off int64
	T   int64
	Key []byte
	Val []byte
	Seg int   // index of the segment file
	Pos int64 // byte range of the record in that file
	End int64
}

var opts14 = klevdb.Options{KeyIndex: true, TimeIndex: true, Rollover: 1 << 20}

// Build14 creates the base log: one Publish call per segment with Rollover 1
// (every call on a non-empty head starts a new segment).
func Build14(dir string, sh Log14) ([]pub, []string, error) {
	vrand.Reset()
	o := opts14
	o.Rollover = 1
	lg, err := klevdb.Open(dir, o)
	if err != nil {
		return nil, nil, err
	}
	n := 0
	for _, seg := range sh.Segs {
		var ms []klevdb.Message
		for _, r := range seg {
			ms = append(ms, klevdb.Message{Time: time.UnixMicro(sh.t0() + r.DT).UTC(), Key: []byte(r.K), Value: []byte(r.V)})
			n++
		}
		if _, err := lg.Publish(ms); err != nil {
			return nil, nil, err
		}
	}
	segs := sh.Segs
	if sh.DelLast {
		del := map[int64]struct{}{}
		for i := n - len(segs[len(segs)-1]); i < n; i++ {
			del[int64(i)] = struct{}{}
		}
		if _, _, err := lg.Delete(del); err != nil {
			return nil, nil, err
		}
		n -= len(del)
		segs = append(append([][]rec14{}, segs[:len(segs)-1]...), nil)
	}
	if err := lg.Close(); err != nil {
		return nil, nil, err
	}
	var logs []string
	ents, _ := os.ReadDir(dir)
	for _, e := range ents {
		if strings.HasSuffix(e.Name(), ".log") {
			logs = append(logs, e.Name())
		}
	}
	sort.Strings(logs)
	var pubs []pub
	for si, ln := range logs {
		data, _ := os.ReadFile(filepath.Join(dir, ln))
		_, recs, _, clean := refcodec.ParseLog(data)
		if !clean {
			return nil, nil, fmt.Errorf("fresh segment %s does not parse", ln)
		}
		if si >= len(segs) || len(recs) != len(segs[si]) {
			return nil, nil, fmt.Errorf("segment %s holds %d records, not what the shape says", ln, len(recs))
		}
		for _, r := range recs {
			pubs = append(pubs, pub{Off: r.Off, T: r.T, Key: r.Key, Val: r.Val, Seg: si, Pos: r.Pos, End: r.Pos + r.Size})
		}
	}
	if len(pubs) != n || len(logs) != len(segs) {
		return nil, nil, fmt.Errorf("built %d messages in %d segments, want %d in %d", len(pubs), len(logs), n, len(segs))
	}
	return pubs, logs, nil
}

type Damage14 struct {
	Desc    string
	Seg     int
	Data    []byte
	Lo, Hi  int  // damaged byte range (in place kinds)
	InPlace bool // overwrite in place (length unchanged)
}

func Damages14(files [][]byte) []Damage14 {
	var ds []Damage14
	for si, f := range files {
		for p := 0; p < len(f); p++ {
			for bit := 0; bit < 8; bit++ {
				d := cloneb(f)
				d[p] ^= 1 << bit
				ds = append(ds, Damage14{Desc: fmt.Sprintf("segment %d: bit %d of byte %d flipped", si, bit, p), Seg: si, Data: d, Lo: p, Hi: p + 1, InPlace: true})
			}
		}
		for p := 0; p < len(f); p++ {
			for n := 1; n <= 8 && p+n <= len(f); n++ {
				for pi, name := range []string{"zeros", "0xFF", "pseudo-random", "copy of the preceding bytes"} {
					d := cloneb(f)
					switch pi {
					case 0:
						copy(d[p:p+n], make([]byte, n))
					case 1:
						copy(d[p:p+n], bytes.Repeat([]byte{0xFF}, n))
					case 2:
						copy(d[p:p+n], prand(n, p*8+n))
					case 3:
						if p < n {
							continue
						}
						copy(d[p:p+n], f[p-n:p])
					}
					if bytes.Equal(d, f) {
						continue
					}
					// the damaged range is where bytes actually differ
					lo, hi := p, p+n
					for lo < hi && d[lo] == f[lo] {
						lo++
					}
					for hi > lo && d[hi-1] == f[hi-1] {
						hi--
					}
					ds = append(ds, Damage14{Desc: fmt.Sprintf("segment %d: %d bytes at %d overwritten with %s", si, n, p, name), Seg: si, Data: d, Lo: lo, Hi: hi, InPlace: true})
				}
			}
		}
		for L := 0; L < len(f); L++ {
			ds = append(ds, Damage14{Desc: fmt.Sprintf("segment %d: truncated to %d bytes", si, L), Seg: si, Data: cloneb(f[:L])})
		}
		for p := 0; p < len(f); p++ {
			d := cloneb(f)
			for i := p; i < len(d); i++ {
				d[i] = 0
			}
			if bytes.Equal(d, f) {
				continue
			}
			lo, hi := p, len(f)
			for lo < hi && d[lo] == f[lo] {
				lo++
			}
			for hi > lo && d[hi-1] == f[hi-1] {
				hi--
			}
			ds = append(ds, Damage14{Desc: fmt.Sprintf("segment %d: zero-filled from byte %d", si, p), Seg: si, Data: d, Lo: lo, Hi: hi, InPlace: true})
		}
	}
	return ds
}

type call struct {
	name     string
	f        func(l klevdb.Log) ([]klevdb.Message, error)
	startSeg int    // ConsumeByKey: segment file holding the start offset (-1 otherwise)
	key      string // ConsumeByKey: the key
	start    int64  // ConsumeByKey: the start offset
}

func sweep(pubs []pub) []call {
	var cs []call
	next := int64(len(pubs)) + 2 // (two more: base logs that end in an empty head had two messages deleted)
	offs := []int64{klevdb.OffsetOldest, klevdb.OffsetNewest}
	for o := int64(0); o <= next+1; o++ {
		offs = append(offs, o)
	}
	for _, o := range offs {
		for _, m := range []int64{1, 2, 40} {
			o, m := o, m
			cs = append(cs, call{fmt.Sprintf("Consume(%d,%d)", o, m), func(l klevdb.Log) ([]klevdb.Message, error) {
				_, ms, err := l.Consume(o, m)
				return ms, err
			}, -1, "", 0})
		}
	}
	for _, o := range offs {
		o := o
		cs = append(cs, call{fmt.Sprintf("Get(%d)", o), func(l klevdb.Log) ([]klevdb.Message, error) {
			m, err := l.Get(o)
			if err != nil {
				return nil, err
			}
			return []klevdb.Message{m}, nil
		}, -1, "", 0})
	}
	for _, k := range []string{"a", "b", "c", "zz", ""} {
		k := k
		cs = append(cs, call{fmt.Sprintf("GetByKey(%s)", k), func(l klevdb.Log) ([]klevdb.Message, error) {
			m, err := l.GetByKey([]byte(k))
			if err != nil {
				return nil, err
			}
			return []klevdb.Message{m}, nil
		}, -1, "", 0})
		for _, o := range offs {
			for _, m := range []int64{1, 40} {
				o, m := o, m
				seg := pubs[len(pubs)-1].Seg
				switch {
				case o == klevdb.OffsetOldest:
					seg = pubs[0].Seg
				case o >= 0 && int(o) < len(pubs):
					seg = pubs[o].Seg
				}
				cs = append(cs, call{fmt.Sprintf("ConsumeByKey(%s,%d,%d)", k, o, m), func(l klevdb.Log) ([]klevdb.Message, error) {
					_, ms, err := l.ConsumeByKey([]byte(k), o, m)
					return ms, err
				}, seg, k, o})
			}
		}
	}
	for t := pubs[0].T - 1; t <= pubs[len(pubs)-1].T+2; t++ {
		t := t
		cs = append(cs, call{fmt.Sprintf("GetByTime(%d)", t), func(l klevdb.Log) ([]klevdb.Message, error) {
			m, err := l.GetByTime(time.UnixMicro(t))
			if err != nil {
				return nil, err
			}
			return []klevdb.Message{m}, nil
		}, -1, "", 0})
	}
	return cs
}

func allocBytes() uint64 {
	s := []metrics.Sample{{Name: "/gc/heap/allocs:bytes"}}
	metrics.Read(s)
	return s[0].Value.Uint64()
}

func sameMsg(m klevdb.Message, p pub) bool {
	return m.Offset == p.Off && m.Time.UnixMicro() == p.T && bytes.Equal(m.Key, p.Key) && bytes.Equal(m.Value, p.Val)
}

// Base14 builds the base log; returns published messages, log file names and contents.
func Base14(dir string, sh Log14) ([]pub, []string, [][]byte, error) {
	_ = os.RemoveAll(dir)
	if err := os.MkdirAll(dir, 0o700); err != nil {
		return nil, nil, nil, err
	}
	pubs, logs, err := Build14(dir, sh)
	if err != nil {
		return nil, nil, nil, err
	}
	var files [][]byte
	for _, ln := range logs {
		b, _ := os.ReadFile(filepath.Join(dir, ln))
		files = append(files, b)
	}
	return pubs, logs, files, nil
}

func copyDir(src, dst string) {
	_ = os.RemoveAll(dst)
	_ = os.MkdirAll(dst, 0o700)
	ents, _ := os.ReadDir(src)
	for _, e := range ents {
		if e.Name() == ".lock" {
			continue
		}
		b, _ := os.ReadFile(filepath.Join(src, e.Name()))
		_ = os.WriteFile(filepath.Join(dst, e.Name()), b, 0o600)
	}
}

func run14(t Task) Result {
	res := Result{Outcomes: map[string]int{}}
	base := filepath.Join(scratch(), "base14")
	pubs, logs, files, err := Base14(base, Shapes14[t.Shape])
	if err != nil {
		return Result{HarnessErr: err.Error()}
	}
	ds := Damages14(files)
	if t.Hi > len(ds) {
		t.Hi = len(ds)
	}
	calls := sweep(pubs)
	o := opts14
	// reference answers from the undamaged log
	refDir := filepath.Join(scratch(), "ref14")
	copyDir(base, refDir)
	rl, err := klevdb.Open(refDir, o)
	if err != nil {
		return Result{HarnessErr: "open reference copy: " + err.Error()}
	}
	type ans struct {
		offs []int64
		err  error
	}
	ref := make([]ans, len(calls))
	for i, c := range calls {
		ms, err := c.f(rl)
		for _, m := range ms {
			ref[i].offs = append(ref[i].offs, m.Offset)
			if int(m.Offset) >= len(pubs) || !sameMsg(m, pubs[m.Offset]) {
				_ = rl.Close()
				return Result{HarnessErr: fmt.Sprintf("undamaged log: %s returned an unexpected message at offset %d", c.name, m.Offset)}
			}
		}
		ref[i].err = err
	}
	_ = rl.Close()
	var fileSize int64
	for _, f := range files {
		if int64(len(f)) > fileSize {
			fileSize = int64(len(f))
		}
	}
	allocBound := uint64(4*fileSize + 1<<20)

	for di := t.Lo; di < t.Hi; di++ {
		// cold: the damaged directory is opened; warm (in-place damage only): the undamaged directory is
		// opened and read through by every call of the sweep, then the bytes are overwritten underneath the
		// open handle (mappings and descriptors stay as they are) and the sweep runs again on the same handle
		for _, warm := range []bool{false, true} {
			d := ds[di]
			if warm && (!d.InPlace || d.Lo >= d.Hi) {
				continue
			}
			res.Cases++
			dir := filepath.Join(scratch(), "d14")
			copyDir(base, dir)
			if !warm {
				_ = os.WriteFile(filepath.Join(dir, logs[d.Seg]), d.Data, 0o600)
			} else {
				d.Desc += " [overwritten underneath an open handle that had read everything]"
			}
			// Known finding (DESIGN.md 5, D13): a V2 file whose first 8 bytes equal its base
			// offset reads as a headerless V1 file; all-zero bytes are then valid V1 records.
			tagV1 := ""
			if d.Seg == 0 && len(d.Data) >= 8 && bytes.Equal(d.Data[:8], make([]byte, 8)) { // segment 0 has base offset 0
				tagV1 = " [V2 header overwritten with the base offset: file reads as V1]"
			}
			fail := func(sig, format string, a ...any) {
				res.Problems = append(res.Problems, Problem{Sig: sig + tagV1, Msg: fmt.Sprintf(format, a...), Damage: fmt.Sprintf("%s [base log: %s]", d.Desc, Shapes14[t.Shape].Name)})
			}
			// records overlapping the damaged bytes
			damaged := map[int64]bool{}
			if d.InPlace {
				for _, p := range pubs {
					if p.Seg == d.Seg && int64(d.Lo) < p.End && int64(d.Hi) > p.Pos {
						damaged[p.Off] = true
					}
				}
			}
			var lg klevdb.Log
			var oerr error
			if p := safely(func() { lg, oerr = klevdb.Open(dir, o) }); p != "" {
				fail("panic in Open", "Open panicked: %s", p)
				continue
			}
			if oerr != nil {
				if warm {
					return Result{HarnessErr: "open of the undamaged copy failed: " + oerr.Error()}
				}
				res.Outcomes["open error"]++
				continue
			}
			if warm {
				for _, c := range calls {
					safely(func() { _, _ = c.f(lg) })
				}
				f, err := os.OpenFile(filepath.Join(dir, logs[d.Seg]), os.O_WRONLY, 0)
				if err == nil {
					_, err = f.WriteAt(d.Data[d.Lo:d.Hi], int64(d.Lo))
					_ = f.Close()
				}
				if err != nil {
					_ = lg.Close()
					return Result{HarnessErr: "overwriting in place failed: " + err.Error()}
				}
			}
			nerr, nok := 0, 0
			for i, c := range calls {
				var ms []klevdb.Message
				var cerr error
				a0 := allocBytes()
				p := safely(func() { ms, cerr = c.f(lg) })
				a1 := allocBytes()
				if p != "" {
					fail("panic in "+callKind(c.name), "%s panicked: %s", c.name, p)
					continue
				}
				if a1-a0 > allocBound {
					fail("allocation in "+callKind(c.name), "%s allocated %d bytes on segment files of at most %d bytes", c.name, a1-a0, fileSize)
				}
				if cerr != nil {
					nerr++
				} else {
					nok++
				}
				for _, m := range ms {
					if m.Offset < 0 || int(m.Offset) >= len(pubs) || !sameMsg(m, pubs[m.Offset]) {
						fail("wrong data from "+callKind(c.name), "%s returned {off %d t %d key %q value %q} which differs from what was published at that offset", c.name, m.Offset, m.Time.UnixMicro(), m.Key, m.Value)
						break
					}
				}
				if !d.InPlace || len(ref[i].offs) == 0 {
					continue
				}
				hits, other := false, true
				for _, off := range ref[i].offs {
					if damaged[off] {
						hits = true
					}
					if pubs[off].Seg == d.Seg {
						other = false
					}
				}
				if hits && cerr == nil {
					fail("no error from "+callKind(c.name)+" over an overwritten record", "%s succeeded (%d messages) although its answer %v includes an overwritten record %v", c.name, len(ms), ref[i].offs, keysOf(damaged))
				}
				if other {
					same := cerr == nil && len(ms) == len(ref[i].offs)
					for j := 0; same && j < len(ms); j++ {
						same = ms[j].Offset == ref[i].offs[j]
					}
					if !same {
						tag := ""
						if strings.HasPrefix(c.name, "GetByTime(") && len(ref[i].offs) == 1 && pubs[ref[i].offs[0]].Seg < d.Seg {
							// Known finding (DESIGN.md 5, D20): the segment walk goes from the newest segment
							// to the oldest and reads the first message of a newer segment, which has the
							// same time (as has every message in between), before it finds the older answer
							var first *pub
							for k := range pubs {
								if pubs[k].Seg == d.Seg {
									first = &pubs[k]
									break
								}
							}
							if first != nil && first.T == pubs[ref[i].offs[0]].T {
								tag = " [GetByTime answer has the same time as the first message of the damaged newer segment]"
							}
						}
						if c.startSeg >= 0 && c.startSeg == d.Seg {
							// Known finding (DESIGN.md 5, D14): the scan reads the candidates of the
							// key's hash that are stored before the start offset in the start segment
							// (only when the damage is in one of those candidates or in the file header)
							for _, pb := range pubs {
								if pb.Seg == d.Seg && string(pb.Key) == c.key && (damaged[pb.Off] || d.Lo < 8) {
									tag = " [ConsumeByKey cursor starts in the damaged segment, which holds messages of that key]"
								}
							}
						}
						fail(callKind(c.name)+" answered from other segments changed"+tag, "%s is answered entirely from other segment files (%v) but returned (%d messages, %v)", c.name, ref[i].offs, len(ms), cerr)
					}
				}
			}
			if warm {
				res.Outcomes[fmt.Sprintf("warm handle: %d calls failed, %d succeeded", nerr, nok)]++
			} else {
				res.Outcomes[fmt.Sprintf("opened: %d calls failed, %d succeeded", nerr, nok)]++
			}
			if p := safely(func() { _ = lg.Close() }); p != "" {
				fail("panic in Close", "Close panicked: %s", p)
			}
		}
	}
	if t.Lo < len(ds) {
		res.Sample = ds[t.Lo].Desc
	}
	return res
}

func callKind(name string) string {
	if i := strings.Index(name, "("); i > 0 {
		return name[:i]
	}
	return name
}

func keysOf(m map[int64]bool) []int64 {
	var out []int64
	for k := range m {
		out = append(out, k)
	}
	sort.Slice(out, func(i, j int) bool { return out[i] < out[j] })
	return out
}
