package main

import (
	"fmt"
	"os"
	"time"

	"verif/h/eng"
	"verif/h/seqx"
)

type seqCheck struct {
	families []string
	thorough []string
	rule     string
	assume   []string
}

var seqChecks = map[string]seqCheck{
	"C01": {families: []string{"core", "cfg", "roll", "inputs", "inputs-nt", "helpers"}},
	"C02": {families: []string{"tail", "core"}},
	"C03": {families: []string{"core", "cfg", "roll", "tail"}},
	"C04": {families: []string{"core", "cfg", "roll", "tail"}},
	"C09": {families: []string{"collide"}},
	"C10": {families: []string{"times", "core", "cfg", "roll", "inputs", "helpers"}},
	"C11": {families: []string{"ixfiles"}, thorough: []string{"ixfiles", "ixfiles-all"}},
	"C12": {families: []string{"del"}},
	"C13": {families: []string{"core", "cfg", "roll"}},
	"C15": {families: []string{"trim"}},
	"C16": {families: []string{"kv"}},
	"C17": {families: []string{"versions"}},
	"C20": {families: []string{"backup"}},
}

func tierBudget(tier string) time.Duration {
	if s := os.Getenv("VERIF_BUDGET_S"); s != "" {
		var n int
		fmt.Sscan(s, &n)
		return time.Duration(n) * time.Second
	}
	if tier == "thorough" {
		return 20 * time.Minute
	}
	return 150 * time.Second
}

func runCheck(prop, tier string) int {
	if tier != "quick" && tier != "thorough" {
		fmt.Fprintln(os.Stderr, "tier must be quick or thorough")
		return 2
	}
	if c, ok := seqChecks[prop]; ok {
		return runSeq(prop, tier, c)
	}
	fmt.Fprintln(os.Stderr, "no check for", prop)
	return 2
}

func runSeq(prop, tier string, c seqCheck) int {
	r := eng.NewRun(prop, tier, "model_checking", "seqx")
	pool := eng.NewPool("seqx")
	pool.Start()
	defer pool.Close()
	st := &seqx.Stats{FPs: map[uint64]struct{}{}}
	budget := tierBudget(tier)
	if tier == "thorough" && c.thorough != nil {
		c.families = c.thorough
	}
	for i, name := range c.families {
		f := seqx.Families[name]
		if f == nil {
			r.HarnessError("unknown family " + name)
			continue
		}
		// each family gets an equal share of what is left
		left := budget - r.Elapsed()
		share := left / time.Duration(len(c.families)-i)
		seqx.Explore(r, pool, f, tier, time.Now().Add(share), st)
	}
	r.Cov["states"] = st.States
	r.Cov["transitions"] = st.Transitions
	r.Cov["traces_validated_against_impl"] = st.Transitions
	r.Cov["evaluations"] = st.Transitions
	r.Cov["distinct_nontrivial"] = len(st.FPs)
	r.Cov["max_depth_completed"] = st.Depth
	r.Cov["leaf_transitions"] = st.Leaves
	r.Cov["families"] = c.families
	r.Cov["rule"] = "breadth-first search over API histories of the listed families on the real code; a state is the canonical key (options, model, file contents, in-memory dump, clock); every transition is one real execution of history+letter followed by the full observation; distinct_nontrivial counts distinct observation fingerprints"
	r.Assumptions = append([]string{"small-scope: logs of at most 8-10 messages and 5 segments", "trusted: Go toolchain, tmpfs, the shims (forwarding to the real primitives), the reference model"}, c.assume...)
	return r.Finish()
}

func runWorker(engine string) {
	switch engine {
	case "seqx":
		eng.ServeWorker(seqx.Worker)
		seqx.CleanupWorker()
	default:
		fmt.Fprintln(os.Stderr, "unknown engine", engine)
		os.Exit(2)
	}
}

func runReplay(path string) int {
	fmt.Fprintln(os.Stderr, "replay not built yet:", path)
	return 2
}
