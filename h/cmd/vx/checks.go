package main

import (
	"encoding/json"
	"fmt"
	"os"
	"sort"
	"strings"
	"time"

	"verif/h/codecx"
	"verif/h/crashx"
	"verif/h/dmgx"
	"verif/h/eng"
	"verif/h/seqx"
)

type seqCheck struct {
	families []string
	thorough []string
	pre      func(r *eng.Run, tier string) // extra engine run before the search (same evidence file)
	rule     string
	assume   []string
}

var seqChecks = map[string]seqCheck{
	"C01": {families: []string{"core", "cfg", "roll", "inputs", "inputs-nt", "helpers"}},
	"C02": {families: []string{"tail", "core"}},
	"C03": {families: []string{"core", "cfg", "roll", "tail"}},
	"C04": {families: []string{"core", "cfg", "roll", "tail"}},
	"C09": {families: []string{"collide"}},
	"C10": {families: []string{"times", "core", "cfg", "roll", "inputs", "helpers"}},
	"C11": {families: []string{"ixfiles"}, thorough: []string{"ixfiles", "ixfiles-all"}},
	"C12": {families: []string{"del"}},
	"C13": {families: []string{"core", "cfg", "roll", "inputs"}, pre: runCodecx},
	"C15": {families: []string{"trim"}},
	"C16": {families: []string{"kv"}},
	"C17": {families: []string{"versions"}},
	"C20": {families: []string{"backup"}},
}

func tierBudget(tier string) time.Duration {
	if s := os.Getenv("VERIF_BUDGET_S"); s != "" {
		var n int
		fmt.Sscan(s, &n)
		return time.Duration(n) * time.Second
	}
	if tier == "thorough" {
		return 20 * time.Minute
	}
	return 150 * time.Second
}

func runCheck(prop, tier string) int {
	if tier != "quick" && tier != "thorough" {
		fmt.Fprintln(os.Stderr, "tier must be quick or thorough")
		return 2
	}
	if c, ok := seqChecks[prop]; ok {
		return runSeq(prop, tier, c)
	}
	if prop == "C07" || prop == "C14" {
		return runDmg(prop, tier)
	}
	if prop == "C05" || prop == "C06" {
		return runCrash(prop, tier)
	}
	fmt.Fprintln(os.Stderr, "no check for", prop)
	return 2
}

func runSeq(prop, tier string, c seqCheck) int {
	r := eng.NewRun(prop, tier, "model_checking", "seqx")
	pool := eng.NewPool("seqx")
	pool.Start()
	defer pool.Close()
	st := &seqx.Stats{FPs: map[uint64]struct{}{}}
	budget := tierBudget(tier)
	if c.pre != nil {
		c.pre(r, tier)
	}
	if tier == "thorough" && c.thorough != nil {
		c.families = c.thorough
	}
	for i, name := range c.families {
		f := seqx.Families[name]
		if f == nil {
			r.HarnessError("unknown family " + name)
			continue
		}
		// each family gets an equal share of what is left
		left := budget - r.Elapsed()
		share := left / time.Duration(len(c.families)-i)
		seqx.Explore(r, pool, f, tier, time.Now().Add(share), st)
	}
	r.Cov["states"] = st.States
	r.Cov["transitions"] = st.Transitions
	r.Cov["traces_validated_against_impl"] = st.Transitions
	r.Cov["evaluations"] = st.Transitions
	r.Cov["distinct_nontrivial"] = len(st.FPs)
	r.Cov["max_depth_completed"] = st.Depth
	r.Cov["leaf_transitions"] = st.Leaves
	r.Cov["families"] = c.families
	r.Cov["rule"] = "breadth-first search over API histories of the listed families on the real code; a state is the canonical key (options, model, file contents, in-memory dump, clock); every transition is one real execution of history+letter followed by the full observation; distinct_nontrivial counts distinct observation fingerprints"
	r.Assumptions = append([]string{"small-scope: logs of at most 8-10 messages and 5 segments", "trusted: Go toolchain, tmpfs, the shims (forwarding to the real primitives), the reference model"}, c.assume...)
	return r.Finish()
}

func runCodecx(r *eng.Run, tier string) {
	root, err := os.MkdirTemp(scratch(), "verif.codecx.")
	if err != nil {
		r.HarnessError(err.Error())
		return
	}
	defer os.RemoveAll(root)
	st := codecx.Run(root, tier, func(p codecx.Problem) {
		if p.Sig == "harness" {
			r.HarnessError(p.Msg)
			return
		}
		r.Report(eng.Violation{Sig: "codec: " + p.Sig, Msg: p.Msg, Replay: map[string]any{"engine": "codecx", "case": p.Rep, "expected_vs_observed": p.Msg}})
	})
	r.Cov["codec_cases"] = st.Cases
	r.Cov["codec_files"] = st.Files
	r.Cov["codec_distinct_messages"] = st.Distinct
	r.Cov["codec_rule"] = "every key length x value length of the tier x 6 boundary times x 4 base offsets x V1/V2, written with message.Writer / index.Writer (4 layouts), compared byte for byte with the independent reference encoder, then the reference bytes read back through the file reader and the mmap reader"
	r.Samples = append(r.Samples, map[string]any{"engine": "codecx", "version": 2, "klen": 3, "vlens": "0..64,255,256,257,300", "time_us": codecx.Times[0], "base_offset": codecx.Bases[2]})
}

func scratch() string {
	if s := os.Getenv("VERIF_SCRATCH"); s != "" {
		return s
	}
	return "/dev/shm"
}

func runWorker(engine string) {
	switch engine {
	case "seqx":
		eng.ServeWorker(seqx.Worker)
		seqx.CleanupWorker()
	case "crashx":
		eng.ServeWorker(crashx.Worker)
		crashx.CleanupWorker()
	case "dmgx":
		eng.ServeWorker(dmgx.Worker)
		dmgx.CleanupWorker()
	default:
		fmt.Fprintln(os.Stderr, "unknown engine", engine)
		os.Exit(2)
	}
}

func runReplay(path string) int {
	fmt.Fprintln(os.Stderr, "replay not built yet:", path)
	return 2
}

func runDmg(prop, tier string) int {
	r := eng.NewRun(prop, tier, "fault_enumeration", "dmgx")
	pool := eng.NewPool("dmgx")
	pool.Start()
	defer pool.Close()
	root, err := os.MkdirTemp(scratch(), "verif.dmgx.")
	if err != nil {
		r.HarnessError(err.Error())
		return r.Finish()
	}
	defer os.RemoveAll(root)
	var tasks []dmgx.Task
	const chunk = 150
	spaces := 0
	if prop == "C07" {
		for si := range dmgx.Shapes07 {
			for li := range dmgx.Layouts {
				for _, ver := range []int{2, 1} {
					t := dmgx.Task{Prop: prop, Shape: si, Layout: li, Ver: ver, Tier: tier}
					_, _, _, ds, err := dmgx.Base07(root+"/b", t)
					if err != nil {
						r.HarnessError(err.Error())
						continue
					}
					spaces++
					for lo := 0; lo < len(ds); lo += chunk {
						t.Lo, t.Hi = lo, lo+chunk
						tasks = append(tasks, t)
					}
				}
			}
		}
	} else {
		shapes := []int{0}
		if tier == "thorough" {
			shapes = []int{0, 1}
		}
		for _, si := range shapes {
			_, _, files, err := dmgx.Base14(root+"/b", dmgx.Shapes14[si])
			if err != nil {
				r.HarnessError(err.Error())
				continue
			}
			spaces++
			n := len(dmgx.Damages14(files))
			for lo := 0; lo < n; lo += chunk {
				tasks = append(tasks, dmgx.Task{Prop: prop, Shape: si, Lo: lo, Hi: lo + chunk, Tier: tier})
			}
		}
	}
	if r.Seed != 0 && len(tasks) > 1 {
		k := r.Seed % len(tasks)
		if k < 0 {
			k = -k
		}
		tasks = append(tasks[k:], tasks[:k]...)
	}
	cases := 0
	outcomes := map[string]int{}
	eng.Map(pool, tasks, func(i int, raw json.RawMessage, err error) {
		if err != nil {
			if err == eng.ErrHung {
				r.Report(eng.Violation{Sig: "hang", Msg: fmt.Sprintf("a call did not return within the guard in damage shard %+v", tasks[i]), Replay: map[string]any{"task": tasks[i]}})
			} else {
				r.HarnessError(fmt.Sprintf("dmgx shard %+v: %v", tasks[i], err))
			}
			return
		}
		var res dmgx.Result
		if err := json.Unmarshal(raw, &res); err != nil {
			r.HarnessError(err.Error())
			return
		}
		if res.HarnessErr != "" {
			r.HarnessError(fmt.Sprintf("dmgx shard %+v: %s", tasks[i], res.HarnessErr))
			return
		}
		cases += res.Cases
		for k, v := range res.Outcomes {
			outcomes[k] += v
		}
		if len(r.Samples) < 8 && res.Sample != "" {
			r.Samples = append(r.Samples, map[string]any{"shard": tasks[i], "first_damage": res.Sample})
		}
		for _, p := range res.Problems {
			r.Report(eng.Violation{Sig: p.Sig, Msg: p.Msg + " -- damage: " + p.Damage,
				Replay: map[string]any{"engine": "dmgx", "task": tasks[i], "damage": p.Damage, "expected_vs_observed": p.Msg}})
		}
	})
	r.Cov["evaluations"] = cases
	r.Cov["distinct_nontrivial"] = len(outcomes)
	r.Cov["damage_spaces"] = spaces
	r.Cov["outcome_classes"] = outcomes
	if prop == "C07" {
		r.Cov["rule"] = "for every base head segment (4 record shapes x 4 index layouts x V2, V1 for truncation and index damage) the complete damage space is enumerated: truncation to every length, every byte after the header altered three ways, zero/0xFF/pseudo-random tails of every length up to two records, index missing/truncated at every length/every byte inverted/extra items/other layout; each case through klevdb.Recover and through Open(Recover)+Close; distinct_nontrivial counts distinct outcome classes (valid records kept, clean or not, Check verdict, files left)"
	} else {
		r.Cov["rule"] = "three-segment V2 logs with both indexes; damage applied to one .log file at a time: every single-bit flip, every start x length 1..8 overwrite with zeros/0xFF/pseudo-random/copy of preceding bytes, truncation to every length, every zero-filled suffix; after each a fresh Open and the full read sweep (Consume at all offsets x 3 counts, Get, GetByKey, ConsumeByKey, GetByTime); distinct_nontrivial counts distinct (open result, #calls failed, #calls succeeded) classes"
	}
	r.Assumptions = []string{"index files intact for C14 (the property's own fault model)", "trusted: the independent reference parser (cross-checked against klevdb by C13)", "allocation clause: bytes allocated per call measured with runtime/metrics in a single-threaded worker, threshold 4 x file size + 1 MiB"}
	return r.Finish()
}

func runCrash(prop, tier string) int {
	r := eng.NewRun(prop, tier, "fault_enumeration", "crashx")
	pool := eng.NewPool("crashx")
	pool.Env = []string{"VERIF_CRASH_PROP=" + prop}
	pool.Guard = 10 * time.Minute
	pool.Start()
	defer pool.Close()
	st := &seqx.Stats{FPs: map[uint64]struct{}{}}
	f := seqx.Families["crash"]
	seqx.Explore(r, pool, f, tier, time.Now().Add(tierBudget(tier)), st)
	classes := 0
	var classList []string
	for k := range st.Extra {
		if strings.HasPrefix(k, "cp:"+prop+" ") {
			classes++
			classList = append(classList, strings.TrimPrefix(k, "cp:"+prop+" "))
		}
	}
	sort.Strings(classList)
	images := st.Extra["images"] + st.Extra["depth2_images"]
	if prop == "C06" {
		images = st.Extra["tail_loss_images"]
	}
	r.Cov["evaluations"] = images
	r.Cov["distinct_nontrivial"] = classes
	r.Cov["crash_point_classes"] = classList
	r.Cov["states"] = st.States
	r.Cov["transitions"] = st.Transitions
	r.Cov["max_depth_completed"] = st.Depth
	r.Cov["traces_validated_against_impl"] = st.Extra["journals_validated"]
	for _, k := range []string{"images", "distinct_images", "torn_variants", "depth2_images", "tail_loss_images", "power_loss_points", "cache_hits", "cache_misses"} {
		r.Cov[k] = st.Extra[k]
	}
	if prop == "C05" {
		r.Cov["rule"] = "BFS over histories of the crash family (publish with rollover, every single delete, whole-segment deletes, Sync, reopen plain/Recover/eager migration, Migrate) for 4 configurations; for the last letter of every transition the file-system journal recorded underneath the real code yields one crash image per event prefix plus torn variants of every record/index append (every byte up to 48-byte appends, boundary set beyond), and for short histories every event prefix and torn append of the recovering Open itself (depth 2); every image is materialised, opened with Recover, observed through all views, recovered again, appended to and checked; distinct_nontrivial counts distinct (call, file-system step, after/torn) crash-point classes reached; the journal is validated against the real directory after every transition"
	} else {
		r.Cov["rule"] = "same histories; at every event point of the last letter every combination of tail-loss cuts of every file with unsynced bytes (cut candidates: fsynced length, every append boundary since, torn lengths inside the last append, current length; 8-byte headers atomic) is materialised, opened with Recover and compared with the acknowledged-durable prefix (Sync results, Publish results under AutoSync, Close); distinct_nontrivial counts distinct (call, file-system step) points"
	}
	r.Assumptions = []string{"fault model as fixed by the property: process crash keeps the page cache; power loss cuts each file independently to a length between its last fsynced length and its current length; directory operations are durable in program order; 8-byte file headers are atomic", "trusted: the os shim's journal (validated against the real directory after every transition), tmpfs"}
	return r.Finish()
}
