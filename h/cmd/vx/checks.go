package main

import (
	"encoding/json"
	"errors"
	"fmt"
	"os"
	"runtime/debug"
	"sort"
	"strings"
	"time"

	"verif/h/codecx"
	"verif/h/crashx"
	"verif/h/dmgx"
	"verif/h/eng"
	"verif/h/lockx"
	"verif/h/schedx"
	"verif/h/seqx"
)

type seqCheck struct {
	families []string
	thorough []string
	pre      func(r *eng.Run, tier string) // extra engine run before the search (same evidence file)
	post     func(r *eng.Run, tier string) // extra engine run after the search
	rule     string
	assume   []string
}

var seqChecks = map[string]seqCheck{
	"C01": {families: []string{"core", "cfg", "roll", "inputs", "inputs-nt", "helpers"}},
	"C02": {families: []string{"tail", "core", "inputs"}},
	"C03": {families: []string{"core", "cfg", "roll", "tail", "inputs", "firstcall"}},
	"C04": {families: []string{"core", "cfg", "roll", "tail", "inputs", "firstcall"}},
	"C09": {families: []string{"collide", "firstcall"}},
	"C10": {families: []string{"times", "core", "cfg", "roll", "inputs", "helpers", "firstcall"}},
	"C11": {families: []string{"ixfiles"}, thorough: []string{"ixfiles", "ixfiles-all"}, post: runIndexSched},
	"C12": {families: []string{"del"}},
	"C13": {families: []string{"core", "cfg", "roll", "inputs", "firstcall"}, pre: runCodecx},
	"C15": {families: []string{"trim", "firstcall"}},
	"C16": {families: []string{"kv", "kv-rx", "kv-head"}},
	"C17": {families: []string{"versions", "versions-mid"}},
	"C20": {families: []string{"backup"}, post: runBackupSched},
}

func tierBudget(tier string) time.Duration {
	if s := os.Getenv("VERIF_BUDGET_S"); s != "" {
		var n int
		fmt.Sscan(s, &n)
		return time.Duration(n) * time.Second
	}
	if tier == "thorough" {
		return 20 * time.Minute
	}
	return 240 * time.Second
}

func runCheck(prop, tier string) int {
	if tier != "quick" && tier != "thorough" {
		fmt.Fprintln(os.Stderr, "tier must be quick or thorough")
		return 2
	}
	if c, ok := seqChecks[prop]; ok {
		return runSeq(prop, tier, c)
	}
	if prop == "C07" || prop == "C14" {
		return runDmg(prop, tier)
	}
	if prop == "C05" || prop == "C06" {
		return runCrash(prop, tier)
	}
	if prop == "C08" || prop == "C18" {
		return runSched(prop, tier)
	}
	if prop == "C19" {
		return runLock(tier)
	}
	fmt.Fprintln(os.Stderr, "no check for", prop)
	return 2
}

func runSeq(prop, tier string, c seqCheck) int {
	r := eng.NewRun(prop, tier, "model_checking", "seqx")
	pool := eng.NewPool("seqx")
	pool.Start()
	defer pool.Close()
	st := &seqx.Stats{FPs: map[uint64]struct{}{}}
	budget := tierBudget(tier)
	if c.pre != nil {
		c.pre(r, tier)
	}
	if tier == "thorough" && c.thorough != nil {
		c.families = c.thorough
	}
	for i, name := range c.families {
		f := seqx.Families[name]
		if f == nil {
			r.HarnessError("unknown family " + name)
			continue
		}
		// the families are listed most specific first: each may use what is left of the tier's
		// budget (a level that has been started is finished; a cap is reported, never a failure)
		_ = i
		seqx.Explore(r, pool, f, tier, time.Now().Add(budget-r.Elapsed()), st)
	}
	if c.post != nil {
		c.post(r, tier)
	}
	r.Cov["states"] = st.States
	r.Cov["transitions"] = st.Transitions
	r.Cov["traces_validated_against_impl"] = st.Transitions
	r.Cov["evaluations"] = st.Transitions
	r.Cov["distinct_nontrivial"] = len(st.FPs)
	r.Cov["max_depth_completed"] = st.Depth
	r.Cov["leaf_transitions"] = st.Leaves
	r.Cov["families"] = c.families
	r.Cov["rule"] = "breadth-first search over API histories of the listed families on the real code; a state is the canonical key (options, model, file contents, in-memory dump, clock); every transition is one real execution of history+letter followed by the full observation; distinct_nontrivial counts distinct observation fingerprints"
	r.Assumptions = append([]string{"small-scope: logs of at most 8-10 messages and 5 segments", "trusted: Go toolchain, tmpfs, the shims (forwarding to the real primitives), the reference model"}, c.assume...)
	return r.Finish()
}

func runCodecx(r *eng.Run, tier string) {
	root, err := os.MkdirTemp(scratch(), "verif.codecx.")
	if err != nil {
		r.HarnessError(err.Error())
		return
	}
	defer os.RemoveAll(root)
	st := codecx.Run(root, tier, func(p codecx.Problem) {
		if p.Sig == "harness" {
			r.HarnessError(p.Msg)
			return
		}
		r.Report(eng.Violation{Sig: "codec: " + p.Sig, Msg: p.Msg, Replay: map[string]any{"engine": "codecx", "case": p.Rep, "expected_vs_observed": p.Msg}})
	})
	r.Cov["codec_cases"] = st.Cases
	r.Cov["codec_files"] = st.Files
	r.Cov["codec_distinct_messages"] = st.Distinct
	r.Cov["codec_rule"] = "every key length x value length of the tier x 6 boundary times x 4 base offsets x V1/V2, written with message.Writer / index.Writer (4 layouts), compared byte for byte with the independent reference encoder, then the reference bytes read back through the file reader and the mmap reader"
	r.Samples = append(r.Samples, map[string]any{"engine": "codecx", "version": 2, "klen": 3, "vlens": "0..64,255,256,257,300", "time_us": codecx.Times[0], "base_offset": codecx.Bases[2]})
}

func scratch() string {
	if s := os.Getenv("VERIF_SCRATCH"); s != "" {
		return s
	}
	return "/dev/shm"
}

func runWorker(engine string) {
	switch engine {
	case "seqx":
		eng.ServeWorker(seqx.Worker)
		seqx.CleanupWorker()
	case "crashx":
		eng.ServeWorker(crashx.Worker)
		crashx.CleanupWorker()
	case "schedx":
		eng.ServeWorker(schedx.Worker)
		schedx.CleanupWorker()
	case "dmgx":
		eng.ServeWorker(dmgx.Worker)
		dmgx.CleanupWorker()
	default:
		fmt.Fprintln(os.Stderr, "unknown engine", engine)
		os.Exit(2)
	}
}

func runReplay(path string) int {
	b, err := os.ReadFile(path)
	if err != nil {
		fmt.Fprintln(os.Stderr, err)
		return 2
	}
	var art struct {
		Property string          `json:"property"`
		Engine   string          `json:"engine"`
		Message  string          `json:"message"`
		Replay   json.RawMessage `json:"replay"`
	}
	if err := json.Unmarshal(b, &art); err != nil {
		fmt.Fprintln(os.Stderr, err)
		return 2
	}
	fmt.Printf("property %s, engine %s\nrecorded: %s\n", art.Property, art.Engine, art.Message)
	switch art.Engine {
	case "schedx":
		return replaySched(art.Property, art.Replay)
	case "seqx", "crashx":
		return replaySeq(art.Property, art.Replay)
	case "lockx":
		return replayLock(art.Replay)
	case "dmgx":
		return replayDmg(art.Replay)
	default:
		fmt.Println("replay of this engine's artefacts: re-run the check; the artefact names the exact case (damage / codec case)")
		return 0
	}
}

func replayLock(raw json.RawMessage) int {
	var rep struct {
		Start   string   `json:"start"`
		History []string `json:"history"`
	}
	if err := json.Unmarshal(raw, &rep); err != nil || rep.Start == "" {
		fmt.Println("nothing to replay (cross-process case: re-run the check)")
		return 0
	}
	root, _ := os.MkdirTemp(scratch(), "verif.lockx.")
	defer os.RemoveAll(root)
	problems, err := lockx.Replay(root, rep.Start, rep.History)
	if err != nil {
		fmt.Fprintln(os.Stderr, err)
		return 2
	}
	for _, p := range problems {
		fmt.Printf("VIOLATION reproduced: %s after %v from start state %s\n", p, rep.History, rep.Start)
	}
	if len(problems) == 0 {
		fmt.Printf("property C19 holds after %v from start state %s\n", rep.History, rep.Start)
		return 0
	}
	return 1
}

func replayDmg(raw json.RawMessage) int {
	var rep struct {
		Task   dmgx.Task `json:"task"`
		Damage string    `json:"damage"`
	}
	if err := json.Unmarshal(raw, &rep); err != nil {
		fmt.Fprintln(os.Stderr, err)
		return 2
	}
	tb, _ := json.Marshal(rep.Task)
	res := dmgx.Worker(tb).(dmgx.Result)
	dmgx.CleanupWorker()
	if res.HarnessErr != "" {
		fmt.Fprintln(os.Stderr, res.HarnessErr)
		return 2
	}
	rc := 0
	for _, p := range res.Problems {
		if p.Damage == rep.Damage {
			fmt.Printf("VIOLATION reproduced: %s -- damage: %s\n", p.Msg, p.Damage)
			rc = 1
		}
	}
	if rc == 0 {
		fmt.Printf("the property holds for damage %q (shard of %d cases re-run)\n", rep.Damage, res.Cases)
	}
	return rc
}

func replaySched(prop string, raw json.RawMessage) int {
	var rep struct {
		Kind    string         `json:"kind"`
		Program schedx.Program `json:"program"`
		Choices []int          `json:"choices"`
	}
	if err := json.Unmarshal(raw, &rep); err != nil {
		fmt.Fprintln(os.Stderr, err)
		return 2
	}
	fmt.Printf("program %s\nchoices %v\n", rep.Program, rep.Choices)
	judge := schedx.Linearizable
	if prop == "C18" {
		judge = schedx.JudgeBlocking
	}
	if prop == "C06" {
		judge = schedx.JudgeDurable
	}
	if prop == "C11" {
		judge = schedx.JudgeIndexFiles
	}
	rc := 0
	for i := 0; i < 5; i++ {
		x, err := schedx.Exec(rep.Program, rep.Choices, false)
		if err != nil {
			fmt.Fprintln(os.Stderr, err)
			return 2
		}
		if i == 0 {
			fmt.Print(x.Trace(rep.Program))
		}
		msg := ""
		if x.Deadlock != "" {
			msg = "deadlock: " + x.Deadlock
		} else {
			msg = judge(rep.Program, x)
		}
		fmt.Printf("run %d: %s\n", i+1, map[bool]string{true: "property holds on this schedule", false: "VIOLATION reproduced: " + msg}[msg == ""])
		if msg != "" {
			rc = 1
		}
	}
	schedx.CleanupWorker()
	return rc
}

func replaySeq(prop string, raw json.RawMessage) int {
	var rep struct {
		Family   string   `json:"family"`
		CfgIndex int      `json:"cfg_index"`
		History  []string `json:"history"`
	}
	if err := json.Unmarshal(raw, &rep); err != nil {
		fmt.Fprintln(os.Stderr, err)
		return 2
	}
	if len(rep.History) == 0 {
		fmt.Println("nothing to replay")
		return 0
	}
	eng := "seqx"
	if prop == "C05" || prop == "C06" {
		eng = "crashx"
		os.Setenv("VERIF_CRASH_PROP", prop)
	}
	task := seqx.Task{Fam: rep.Family, Cfg: rep.CfgIndex, Hist: rep.History[:len(rep.History)-1], Tier: "quick"}
	tb, _ := json.Marshal(task)
	var res seqx.Result
	if eng == "seqx" {
		res = seqx.Worker(tb).(seqx.Result)
		seqx.CleanupWorker()
	} else {
		res = crashx.Worker(tb).(seqx.Result)
		crashx.CleanupWorker()
	}
	if res.HarnessErr != "" {
		fmt.Fprintln(os.Stderr, res.HarnessErr)
		return 2
	}
	rc := 0
	last := rep.History[len(rep.History)-1]
	for _, s := range res.Succs {
		if s.Letter != last {
			continue
		}
		for _, d := range s.Dis {
			if d.Has(prop) {
				fmt.Printf("VIOLATION reproduced: %s after %v\n", d.Msg, rep.History)
				rc = 1
			}
		}
	}
	if rc == 0 {
		fmt.Printf("property %s holds after %v\n", prop, rep.History)
	}
	return rc
}

func runDmg(prop, tier string) int {
	r := eng.NewRun(prop, tier, "fault_enumeration", "dmgx")
	pool := eng.NewPool("dmgx")
	pool.Start()
	defer pool.Close()
	root, err := os.MkdirTemp(scratch(), "verif.dmgx.")
	if err != nil {
		r.HarnessError(err.Error())
		return r.Finish()
	}
	defer os.RemoveAll(root)
	var tasks []dmgx.Task
	const chunk = 150
	spaces := 0
	if prop == "C07" {
		for si := range dmgx.Shapes07 {
			for li := range dmgx.Layouts {
				for _, ver := range []int{2, 1} {
					t := dmgx.Task{Prop: prop, Shape: si, Layout: li, Ver: ver, Tier: tier}
					_, _, _, ds, err := dmgx.Base07(root+"/b", t)
					if err != nil {
						r.HarnessError(err.Error())
						continue
					}
					spaces++
					for lo := 0; lo < len(ds); lo += chunk {
						t.Lo, t.Hi = lo, lo+chunk
						tasks = append(tasks, t)
					}
				}
			}
		}
	} else {
		shapes := []int{0, 1, 2, 3, 5}
		if tier == "thorough" {
			shapes = []int{0, 1, 2, 3, 4, 5}
		}
		for _, si := range shapes {
			_, _, files, err := dmgx.Base14(root+"/b", dmgx.Shapes14[si])
			if err != nil {
				r.HarnessError(err.Error())
				continue
			}
			spaces++
			n := len(dmgx.Damages14(files))
			for lo := 0; lo < n; lo += chunk {
				tasks = append(tasks, dmgx.Task{Prop: prop, Shape: si, Lo: lo, Hi: lo + chunk, Tier: tier})
			}
		}
	}
	if r.Seed != 0 && len(tasks) > 1 {
		k := r.Seed % len(tasks)
		if k < 0 {
			k = -k
		}
		tasks = append(tasks[k:], tasks[:k]...)
	}
	cases := 0
	outcomes := map[string]int{}
	eng.Map(pool, tasks, func(i int, raw json.RawMessage, err error) {
		if err != nil {
			if err == eng.ErrHung {
				r.Report(eng.Violation{Sig: "hang", Msg: fmt.Sprintf("a call did not return within the guard in damage shard %+v", tasks[i]), Replay: map[string]any{"task": tasks[i]}})
			} else {
				r.HarnessError(fmt.Sprintf("dmgx shard %+v: %v", tasks[i], err))
			}
			return
		}
		var res dmgx.Result
		if err := json.Unmarshal(raw, &res); err != nil {
			r.HarnessError(err.Error())
			return
		}
		if res.HarnessErr != "" {
			r.HarnessError(fmt.Sprintf("dmgx shard %+v: %s", tasks[i], res.HarnessErr))
			return
		}
		cases += res.Cases
		for k, v := range res.Outcomes {
			outcomes[k] += v
		}
		if len(r.Samples) < 8 && res.Sample != "" {
			r.Samples = append(r.Samples, map[string]any{"shard": tasks[i], "first_damage": res.Sample})
		}
		for _, p := range res.Problems {
			r.Report(eng.Violation{Sig: p.Sig, Msg: p.Msg + " -- damage: " + p.Damage,
				Replay: map[string]any{"engine": "dmgx", "task": tasks[i], "damage": p.Damage, "expected_vs_observed": p.Msg}})
		}
	})
	r.Cov["evaluations"] = cases
	r.Cov["distinct_nontrivial"] = len(outcomes)
	r.Cov["damage_spaces"] = spaces
	r.Cov["outcome_classes"] = outcomes
	if prop == "C07" {
		r.Cov["base_segments"] = len(dmgx.Shapes07)
		r.Cov["rule"] = "for every base head segment (record shapes incl. non-monotone and pre-epoch times, a gap in the offsets, bodies around 255/256 bytes, a head with base offset 2 behind sealed segments; x 4 index layouts x V2, V1 for truncation and index damage) the complete damage space is enumerated: truncation to every length, every byte after the header altered three ways, zero/0xFF/pseudo-random tails of every length up to two records, index missing/truncated at every length/every byte inverted/extra items/other layout; each case through klevdb.Recover and through Open(Recover)+Close; distinct_nontrivial counts distinct outcome classes (valid records kept, clean or not, Check verdict, files left)"
	} else {
		r.Cov["rule"] = "3-5 segment V2 logs with both indexes (uniform 40-byte records, mixed sizes with empty keys and values, one-message segments, equal times across boundaries); damage applied to one .log file at a time: every single-bit flip, every start x length 1..8 overwrite with zeros/0xFF/pseudo-random/copy of preceding bytes, truncation to every length, every zero-filled suffix; after each a fresh Open and the full read sweep (Consume at all offsets x 3 counts, Get, GetByKey, ConsumeByKey, GetByTime); distinct_nontrivial counts distinct (open result, #calls failed, #calls succeeded) classes"
	}
	r.Assumptions = []string{"index files intact for C14 (the property's own fault model)", "trusted: the independent reference parser (cross-checked against klevdb by C13)", "allocation clause: bytes allocated per call measured with runtime/metrics in a single-threaded worker, threshold 4 x file size + 1 MiB"}
	return r.Finish()
}

func runCrash(prop, tier string) int {
	r := eng.NewRun(prop, tier, "fault_enumeration", "crashx")
	pool := eng.NewPool("crashx")
	pool.Env = []string{"VERIF_CRASH_PROP=" + prop}
	// one task = all crash / tail-loss images of one transition: minutes in the thorough tier.
	// (The guard fires on an idle or endlessly spinning worker, not on the wall clock.)
	pool.Guard = 20 * time.Minute
	pool.Start()
	defer pool.Close()
	st := &seqx.Stats{FPs: map[uint64]struct{}{}}
	f := seqx.Families["crash"]
	if prop == "C05" {
		// crash points cost less than tail-loss combinations: C05 goes one level deeper in the quick tier
		fc := *f
		fc.Depth = map[string]int{"quick": f.Depth["quick"] + 1, "thorough": f.Depth["thorough"]}
		f = &fc
	}
	seqx.Explore(r, pool, f, tier, time.Now().Add(tierBudget(tier)), st)
	classes := 0
	var classList []string
	for k := range st.Extra {
		if strings.HasPrefix(k, "cp:"+prop+" ") {
			classes++
			classList = append(classList, strings.TrimPrefix(k, "cp:"+prop+" "))
		}
	}
	sort.Strings(classList)
	images := st.Extra["images"] + st.Extra["depth2_images"]
	if prop == "C06" {
		images = st.Extra["tail_loss_images"]
	}
	r.Cov["evaluations"] = images
	r.Cov["distinct_nontrivial"] = classes
	r.Cov["crash_point_classes"] = classList
	r.Cov["states"] = st.States
	r.Cov["transitions"] = st.Transitions
	r.Cov["max_depth_completed"] = st.Depth
	r.Cov["traces_validated_against_impl"] = st.Extra["journals_validated"]
	for _, k := range []string{"images", "distinct_images", "torn_variants", "depth2_images", "tail_loss_images", "power_loss_points", "cache_hits", "cache_misses"} {
		r.Cov[k] = st.Extra[k]
	}
	if prop == "C05" {
		r.Cov["rule"] = "BFS over histories of the crash family (publish with rollover, every single delete, whole-segment deletes, Sync, reopen plain/Recover/eager migration, Migrate) for 4 configurations; for the last letter of every transition the file-system journal recorded underneath the real code yields one crash image per event prefix plus torn variants of every record/index append (every byte up to 48-byte appends, boundary set beyond), and for short histories every event prefix and torn append of the recovering Open itself (depth 2); every image is materialised, opened with Recover, observed through all views, recovered again, appended to and checked; distinct_nontrivial counts distinct (call, file-system step, after/torn) crash-point classes reached; the journal is validated against the real directory after every transition"
	} else {
		r.Cov["rule"] = "same histories; at every event point of the last letter every combination of tail-loss cuts of every file with unsynced bytes (cut candidates: fsynced length, every append boundary since, torn lengths inside the last append, current length; 8-byte headers atomic) is materialised, opened with Recover and compared with the acknowledged-durable prefix (Sync results, Publish results under AutoSync, Close); distinct_nontrivial counts distinct (call, file-system step) points"
	}
	if prop == "C06" {
		runDurableSched(r, tier)
	}
	r.Assumptions = []string{"fault model as fixed by the property: process crash keeps the page cache; power loss cuts each file independently to a length between its last fsynced length and its current length; directory operations are durable in program order; 8-byte file headers are atomic", "trusted: the os shim's journal (validated against the real directory after every transition), tmpfs"}
	return r.Finish()
}

func envInt(name string, def int) int {
	if s := os.Getenv(name); s != "" {
		var n int
		if _, err := fmt.Sscan(s, &n); err == nil {
			return n
		}
	}
	return def
}

func runSched(prop, tier string) int {
	r := eng.NewRun(prop, tier, "model_checking", "schedx")
	var progs []schedx.Program
	judge := "lin"
	if prop == "C08" {
		progs = schedx.Programs08(tier)
	} else {
		if why := os.Getenv("VERIF_CHAN_REWRITE_FAILED"); why != "" {
			// without the rewrite pkg/notify runs on real channels, which the scheduler cannot see:
			// every verdict would be about the harness, not about the code
			r.HarnessError("pkg/notify/notify.go uses a channel construct the channel rewriter does not support (" + why + "): C18 cannot be decided on this tree")
			return r.Finish()
		}
		progs = append(schedx.Programs18(tier), schedx.ProgramsNotify(tier)...)
		judge = "block"
	}
	if f := os.Getenv("VERIF_PROG"); f != "" {
		var sel []schedx.Program
		for _, p := range progs {
			if strings.Contains(p.String(), f) {
				sel = append(sel, p)
			}
		}
		progs = sel
	}
	if len(progs) == 0 {
		r.HarnessError("no programs to explore")
		return r.Finish()
	}
	pairBound, triBound, raceBound := 3, 2, 1
	budget := 150000
	if tier == "thorough" {
		pairBound, triBound, raceBound = 5, 3, 2
		budget = 2000000
	}
	pairBound = envInt("VERIF_BOUND", pairBound)
	triBound = envInt("VERIF_BOUND3", triBound)
	mk := func(p schedx.Program, bound, free int, announce string) schedx.Task {
		return schedx.Task{Prog: p, Bound: bound, Budget: budget, Free: free, Announce: announce, Judge: judge}
	}
	total := struct{ execs, pruned, states, ops, outcomes, noncolliding, exhausted int }{}
	boundHist := map[string]int{}
	handle := func(phase string, t schedx.Task, raw json.RawMessage, err error, announce string) {
		if err != nil {
			var de *eng.DiedError
			switch {
			case err == eng.ErrHung:
				r.Report(eng.Violation{Sig: phase + ": hang", Msg: fmt.Sprintf("exploration of %s did not finish within the guard (a call never returned)", t.Prog), Replay: map[string]any{"program": t.Prog}})
			case errors.As(err, &de) && strings.Contains(de.Stderr, "DATA RACE"):
				ann, _ := os.ReadFile(announce)
				rep := raceSummary(de.Stderr)
				r.Report(eng.Violation{Sig: "data race: " + rep.sig, Msg: fmt.Sprintf("data race in %s under the controlled schedule: %s", t.Prog, rep.short),
					Replay: map[string]any{"engine": "schedx", "kind": "race", "program": t.Prog, "announce": string(ann), "race_report": rep.full}})
			case errors.As(err, &de):
				tail := de.Stderr
				if len(tail) > 2000 {
					tail = tail[len(tail)-2000:]
				}
				r.HarnessError(fmt.Sprintf("%s: worker died on %s: exit %d: %s", phase, t.Prog, de.Exit, tail))
			default:
				r.HarnessError(fmt.Sprintf("%s: %s: %v", phase, t.Prog, err))
			}
			return
		}
		var res schedx.TaskResult
		if err := json.Unmarshal(raw, &res); err != nil {
			r.HarnessError(err.Error())
			return
		}
		if res.HarnessErr != "" {
			r.HarnessError(fmt.Sprintf("%s: %s: %s", phase, t.Prog, res.HarnessErr))
			return
		}
		if os.Getenv("VERIF_VERBOSE") != "" {
			fmt.Fprintf(os.Stderr, "  %s %s: %d executions, %d findings (%.1fs)\n", phase, t.Prog, res.Executions, len(res.Findings), r.Elapsed().Seconds())
		}
		total.execs += res.Executions
		total.pruned += res.Pruned
		total.states += res.States
		total.ops += res.Ops
		if phase == "explore" {
			total.outcomes += res.Outcomes
			if res.Outcomes <= 1 {
				total.noncolliding++
			}
			if res.Exhausted {
				total.exhausted++
			} else {
				what := "execution budget"
				if res.TimedOut {
					what = "time budget of the tier"
				}
				r.Cap(fmt.Sprintf("%s: %s hit after %d executions (completed preemption bound %d)", t.Prog, what, res.Executions, res.BoundDone))
			}
			boundHist[fmt.Sprintf("threads=%d bound_completed=%d", len(t.Prog.Threads), res.BoundDone)]++
			if len(r.Samples) < 6 && res.SampleChoice != nil {
				r.Samples = append(r.Samples, map[string]any{"program": t.Prog.String(), "schedule_choices": res.SampleChoice, "executions": res.Executions, "pruned": res.Pruned, "distinct_outcomes": res.Outcomes, "max_scheduling_points": res.MaxPoints})
			}
		}
		if phase == "race" && !res.Exhausted {
			what := "execution budget"
			if res.TimedOut {
				what = "time budget of the tier"
			}
			r.Cap(fmt.Sprintf("race build, %s: %s hit after %d executions (completed preemption bound %d)", t.Prog, what, res.Executions, res.BoundDone))
		}
		for _, f := range res.Findings {
			if f.Kind == "nondeterminism" {
				r.HarnessError(fmt.Sprintf("%s: %s: %s (choices %v)", phase, t.Prog, f.Msg, f.Choices))
				continue
			}
			r.Report(eng.Violation{Sig: f.Kind + ": " + seqx.Signature(progShape(t.Prog)+" "+firstWords(f.Msg, 12)), Msg: fmt.Sprintf("%s in %s with %d preemptions", f.Msg, t.Prog, f.Preempt),
				Replay: map[string]any{"engine": "schedx", "kind": f.Kind, "program": t.Prog, "choices": f.Choices, "preemptions": f.Preempt, "expected_vs_observed": f.Msg}})
		}
	}
	// phase 1: exploration without the race detector
	pool := eng.NewPool("schedx")
	pool.Env = []string{"GOMAXPROCS=1"}
	pool.Guard = 30 * time.Minute
	pool.Start()
	var tasks []schedx.Task
	for _, p := range progs {
		b := pairBound
		if p.IsTriple() {
			b = triBound
		}
		if len(p.Threads) >= 5 {
			b = triBound - 1
		}
		free := 2
		if p.Block {
			free = 0 // a free-running waiter that is never woken would block for real
		}
		t := mk(p, b, free, "")
		if tier == "thorough" {
			// the quick tier's bounds are always completed; deeper ones until the tier's time budget is used up
			t.Deadline, t.MinBound = time.Now().Add(tierBudget(tier)).Unix(), 3
			if p.IsTriple() {
				t.MinBound = 2
			}
			if len(p.Threads) >= 5 {
				t.MinBound = 1
			}
		}
		tasks = append(tasks, t)
	}
	eng.Map(pool, tasks, func(i int, raw json.RawMessage, err error) { handle("explore", tasks[i], raw, err, "") })
	pool.Close()
	// phase 2: the same explorer built with -race: data-race freedom on every explored schedule
	raceBin := os.Getenv("VERIF_VX_RACE")
	raceExecs := 0
	if _, err := os.Stat(raceBin); raceBin != "" && err == nil {
		rp := eng.NewPool("schedx")
		rp.Bin = raceBin
		rp.Capture = true
		rp.Env = []string{"GOMAXPROCS=1", "GORACE=halt_on_error=1 exitcode=66"}
		rp.Guard = 30 * time.Minute
		rp.Start()
		dir, _ := os.MkdirTemp(scratch(), "verif.announce.")
		defer os.RemoveAll(dir)
		var rtasks []schedx.Task
		for i, p := range progs {
			if p.IsTriple() && tier != "thorough" {
				continue
			}
			t := mk(p, raceBound, 0, fmt.Sprintf("%s/a%d", dir, i))
			t.Budget = budget / 10
			if tier == "thorough" {
				t.Deadline, t.MinBound = time.Now().Add(tierBudget(tier)).Unix(), 1
			}
			rtasks = append(rtasks, t)
		}
		before := total.execs
		eng.Map(rp, rtasks, func(i int, raw json.RawMessage, err error) { handle("race", rtasks[i], raw, err, rtasks[i].Announce) })
		rp.Close()
		raceExecs = total.execs - before
		r.Cov["race_detector_programs"] = len(rtasks)
	} else {
		r.Cap("race build not available: data-race freedom not checked in this run")
	}
	r.Cov["programs"] = len(progs)
	r.Cov["states"] = total.states
	r.Cov["transitions"] = total.ops
	r.Cov["traces_validated_against_impl"] = total.execs
	r.Cov["evaluations"] = total.execs
	r.Cov["executions_under_race_detector"] = raceExecs
	r.Cov["schedules_pruned_by_happens_before"] = total.pruned
	r.Cov["distinct_nontrivial"] = total.outcomes
	r.Cov["programs_with_one_outcome_only"] = total.noncolliding
	r.Cov["programs_exhausted_within_bound"] = total.exhausted
	r.Cov["bounds_completed"] = boundHist
	r.Cov["preemption_bounds"] = map[string]int{"pairs": pairBound, "triples": triBound, "race_build": raceBound}
	r.Cov["rule"] = "every program (initial state x calls per thread) is executed on the real code under the cooperative scheduler for every schedule up to the preemption bound (iterated 0..bound), pruning schedule prefixes whose happens-before identity (per-thread event hashes incl. call/return order) was already explored at equal or smaller cost; states = distinct (happens-before prefix, next thread) pairs, transitions = scheduled operations, distinct_nontrivial = distinct observed outcomes (results + real-time order + final log) summed over programs; every execution is judged by brute-force linearizability against the list model with the final sequential observation as a constraint; the same exploration is repeated on a -race build (hand-off invisible to the detector)"
	r.Assumptions = []string{"2-3 threads, 1-2 calls each; preemption bound as reported", "file-system calls, lock operations and atomics are atomic steps; Go memory model below data-race freedom not explored", "trusted: the shims (real primitives underneath), the scheduler, the race detector"}
	return r.Finish()
}

type raceRep struct{ sig, short, full string }

// raceSummary extracts the two access sites of the first race report.
func raceSummary(stderr string) raceRep {
	i := strings.Index(stderr, "WARNING: DATA RACE")
	if i < 0 {
		return raceRep{sig: "unknown", short: "unknown", full: stderr}
	}
	rep := stderr[i:]
	if j := strings.Index(rep, "=================="); j > 0 {
		rep = rep[:j]
	}
	var sites []string
	lines := strings.Split(rep, "\n")
	for k, l := range lines {
		lt := strings.TrimSpace(l)
		if (strings.HasPrefix(lt, "Read at") || strings.HasPrefix(lt, "Write at") || strings.HasPrefix(lt, "Previous read at") || strings.HasPrefix(lt, "Previous write at")) && k+2 < len(lines) {
			fn := strings.TrimSpace(lines[k+1])
			loc := strings.TrimSpace(lines[k+2])
			if sp := strings.Index(loc, " "); sp > 0 {
				loc = loc[:sp]
			}
			if sl := strings.LastIndex(loc, "/"); sl >= 0 {
				loc = loc[sl+1:]
			}
			if p := strings.Index(fn, "("); p > 0 {
				fn = fn[:p]
			}
			if sl := strings.LastIndex(fn, "/"); sl >= 0 {
				fn = fn[sl+1:]
			}
			kind := "read"
			if strings.Contains(lt, "rite") {
				kind = "write"
			}
			sites = append(sites, fmt.Sprintf("%s in %s", kind, fn))
			_ = loc
		}
	}
	sort.Strings(sites)
	sig := strings.Join(sites, " vs ")
	if len(rep) > 3000 {
		rep = rep[:3000]
	}
	return raceRep{sig: sig, short: sig, full: rep}
}

func progShape(p schedx.Program) string {
	var ts []string
	for _, t := range p.Threads {
		var cs []string
		for _, c := range t {
			op, _, _ := strings.Cut(c, ":")
			cs = append(cs, op)
		}
		ts = append(ts, strings.Join(cs, ";"))
	}
	sort.Strings(ts)
	return strings.Join(ts, " || ")
}

func firstWords(s string, n int) string {
	f := strings.Fields(s)
	if len(f) > n {
		f = f[:n]
	}
	return strings.Join(f, " ")
}

// runIndexSched is the concurrent part of C11: threads making the first
// access to segments whose index files were removed; after Close every index
// file must match its log.
func runIndexSched(r *eng.Run, tier string) {
	pool := eng.NewPool("schedx")
	pool.Env = []string{"GOMAXPROCS=1"}
	pool.Guard = 30 * time.Minute
	pool.Start()
	defer pool.Close()
	bound := 2
	if tier == "thorough" {
		bound = 3
	}
	var tasks []schedx.Task
	for _, p := range schedx.Programs11() {
		tasks = append(tasks, schedx.Task{Prog: p, Bound: bound, Budget: 300000, Judge: "index"})
	}
	execs := 0
	eng.Map(pool, tasks, func(i int, raw json.RawMessage, err error) {
		if err != nil {
			r.HarnessError(fmt.Sprintf("concurrent part: %s: %v", tasks[i].Prog, err))
			return
		}
		var res schedx.TaskResult
		if err := json.Unmarshal(raw, &res); err != nil || res.HarnessErr != "" {
			r.HarnessError(fmt.Sprintf("concurrent part: %s: %v %s", tasks[i].Prog, err, res.HarnessErr))
			return
		}
		execs += res.Executions
		if !res.Exhausted {
			r.Cap(fmt.Sprintf("concurrent part: %s: execution budget hit", tasks[i].Prog))
		}
		for _, f := range res.Findings {
			if f.Kind == "nondeterminism" {
				r.HarnessError(fmt.Sprintf("concurrent part: %s: %s", tasks[i].Prog, f.Msg))
				continue
			}
			r.Report(eng.Violation{Sig: "concurrent: " + f.Kind + ": " + seqx.Signature(firstWords(f.Msg, 14)), Msg: fmt.Sprintf("%s in %s with %d preemptions", f.Msg, tasks[i].Prog, f.Preempt),
				Replay: map[string]any{"engine": "schedx", "kind": f.Kind, "program": tasks[i].Prog, "choices": f.Choices, "expected_vs_observed": f.Msg}})
		}
	})
	r.Cov["concurrent_programs"] = len(tasks)
	r.Cov["concurrent_executions"] = execs
	r.Cov["concurrent_rule"] = fmt.Sprintf("all pairs (and two triples) of first accesses (Get, Consume, GetByKey, Stat, Delete, GC) to a three-segment log whose index files were removed, every schedule up to %d preemptions under the cooperative scheduler; after Close every index file must equal the index derived from its log", bound)
}

// runBackupSched is the concurrent part of C20.
func runBackupSched(r *eng.Run, tier string) {
	// Not part of the registered check: C20 quantifies over sequential source states only, and
	// on the unchanged tree a Backup that overlaps a Publish can copy a log and an index that
	// do not match (DESIGN.md section 7). Kept as an experiment behind an environment knob.
	if os.Getenv("VERIF_C20_CONCURRENT") == "" {
		return
	}
	pool := eng.NewPool("schedx")
	pool.Env = []string{"GOMAXPROCS=1"}
	pool.Guard = 30 * time.Minute
	pool.Start()
	defer pool.Close()
	bound := 2
	if tier == "thorough" {
		bound = 3
	}
	var tasks []schedx.Task
	for _, p := range schedx.Programs20(tier) {
		if f := os.Getenv("VERIF_PROG"); f != "" && !strings.Contains(p.String(), f) {
			continue
		}
		b := bound
		if p.IsTriple() {
			b = bound - 1
		}
		tasks = append(tasks, schedx.Task{Prog: p, Bound: b, Budget: 200000, Judge: "lin"})
	}
	execs := 0
	eng.Map(pool, tasks, func(i int, raw json.RawMessage, err error) {
		if err != nil {
			r.HarnessError(fmt.Sprintf("concurrent part: %s: %v", tasks[i].Prog, err))
			return
		}
		var res schedx.TaskResult
		if err := json.Unmarshal(raw, &res); err != nil || res.HarnessErr != "" {
			r.HarnessError(fmt.Sprintf("concurrent part: %s: %v %s", tasks[i].Prog, err, res.HarnessErr))
			return
		}
		execs += res.Executions
		if !res.Exhausted {
			r.Cap(fmt.Sprintf("concurrent part: %s: execution budget hit", tasks[i].Prog))
		}
		for _, f := range res.Findings {
			if f.Kind == "nondeterminism" {
				r.HarnessError(fmt.Sprintf("concurrent part: %s: %s", tasks[i].Prog, f.Msg))
				continue
			}
			r.Report(eng.Violation{Sig: "concurrent: " + f.Kind + ": " + seqx.Signature(firstWords(f.Msg, 14)), Msg: fmt.Sprintf("%s in %s with %d preemptions", f.Msg, tasks[i].Prog, f.Preempt),
				Replay: map[string]any{"engine": "schedx", "kind": f.Kind, "program": tasks[i].Prog, "choices": f.Choices, "expected_vs_observed": f.Msg}})
		}
	})
	r.Cov["concurrent_programs"] = len(tasks)
	r.Cov["concurrent_executions"] = execs
	r.Cov["concurrent_rule"] = fmt.Sprintf("Log.Backup racing with Publish (with and without rollover), Delete (rebasing, emptying, head and sealed segments), GC, a lazy first read and another Backup, from three initial states, every schedule up to %d preemptions (triples %d) under the cooperative scheduler; the result of a Backup call is what its directory opens to (Check, Open(Check), cursor walk, NextOffset), and the call/return history must be linearizable: the backup is the log as it was at one moment between the call and its return", bound, bound-1)
}

// runDurableSched is the concurrent part of C06: Sync and AutoSync publishes racing with
// publishes and deletes; every acknowledgement of durability is checked against every
// tail-loss image of the moment it was given.
func runDurableSched(r *eng.Run, tier string) {
	pool := eng.NewPool("schedx")
	pool.Env = []string{"GOMAXPROCS=1"}
	pool.Guard = 30 * time.Minute
	pool.Start()
	defer pool.Close()
	bound := 2
	if tier == "thorough" {
		bound = 3
	}
	var tasks []schedx.Task
	for _, p := range schedx.Programs06(tier) {
		if f := os.Getenv("VERIF_PROG"); f != "" && !strings.Contains(p.String(), f) {
			continue
		}
		tasks = append(tasks, schedx.Task{Prog: p, Bound: bound, Budget: 200000, Judge: "durable"})
	}
	execs := 0
	eng.Map(pool, tasks, func(i int, raw json.RawMessage, err error) {
		if err != nil {
			r.HarnessError(fmt.Sprintf("concurrent part: %s: %v", tasks[i].Prog, err))
			return
		}
		var res schedx.TaskResult
		if err := json.Unmarshal(raw, &res); err != nil || res.HarnessErr != "" {
			r.HarnessError(fmt.Sprintf("concurrent part: %s: %v %s", tasks[i].Prog, err, res.HarnessErr))
			return
		}
		execs += res.Executions
		if !res.Exhausted {
			r.Cap(fmt.Sprintf("concurrent part: %s: execution budget hit", tasks[i].Prog))
		}
		for _, f := range res.Findings {
			if f.Kind == "nondeterminism" {
				r.HarnessError(fmt.Sprintf("concurrent part: %s: %s", tasks[i].Prog, f.Msg))
				continue
			}
			r.Report(eng.Violation{Sig: "concurrent: " + f.Kind + ": " + seqx.Signature(firstWords(f.Msg, 14)), Msg: fmt.Sprintf("%s in %s with %d preemptions", f.Msg, tasks[i].Prog, f.Preempt),
				Replay: map[string]any{"engine": "schedx", "kind": f.Kind, "judge": "durable", "program": tasks[i].Prog, "choices": f.Choices, "expected_vs_observed": f.Msg}})
		}
	})
	r.Cov["concurrent_programs"] = len(tasks)
	r.Cov["concurrent_executions"] = execs
	r.Cov["concurrent_rule"] = fmt.Sprintf("Sync (and Publish on an AutoSync log) racing with publishes (with and without rollover) and deletes, 2-3 threads, every schedule up to %d preemptions under the cooperative scheduler with the file-system journal recording; at the moment each Sync / AutoSync Publish returned w, every tail-loss image of the directory (as in the sequential part) is recovered on the real code and must hold every live message below w, nothing that was never published, and NextOffset >= w", bound)
}

func runLock(tier string) int {
	r := eng.NewRun("C19", tier, "model_checking", "lockx")
	// the state space is finite (publishes through a handle are bounded): depth 12 reaches the fixpoint
	depth := 12
	if tier == "thorough" {
		depth = 16
	}
	depth = envInt("VERIF_DEPTH", depth)
	root, err := os.MkdirTemp(scratch(), "verif.lockx.")
	if err != nil {
		r.HarnessError(err.Error())
		return r.Finish()
	}
	defer os.RemoveAll(root)
	// a lock leaked by a failed Open would be released as soon as the collector finalises the
	// dropped file: keep the collector out of the way (the search allocates little)
	defer debug.SetGCPercent(debug.SetGCPercent(-1))
	type out struct {
		st  lockx.Start
		res lockx.Result
	}
	ch := make(chan out, len(lockx.Starts))
	for _, st := range lockx.Starts {
		go func(st lockx.Start) {
			sub, _ := os.MkdirTemp(root, "s")
			ch <- out{st, lockx.Explore(sub, st, depth)}
		}(st)
	}
	states, trans, maxd, fix := 0, 0, 0, 0
	for range lockx.Starts {
		o := <-ch
		if o.res.Fixpoint {
			fix++
		}
		if o.res.HarnessErr != "" {
			r.HarnessError(o.st.Name + ": " + o.res.HarnessErr)
		}
		states += o.res.States
		trans += o.res.Transitions
		if o.res.Depth > maxd {
			maxd = o.res.Depth
		}
		if o.res.Sample != nil {
			r.Samples = append(r.Samples, map[string]any{"start": o.st.Name, "history": o.res.Sample})
		}
		for _, p := range o.res.Problems {
			r.Report(eng.Violation{Sig: seqx.Signature(p.Msg), Msg: fmt.Sprintf("%s after %v from start state %s", p.Msg, p.Hist, p.Start),
				Replay: map[string]any{"engine": "lockx", "start": p.Start, "history": p.Hist, "expected_vs_observed": p.Msg}})
		}
	}
	// cross-process sanity case
	cp, _ := os.MkdirTemp(root, "x")
	for _, p := range lockx.CrossProcess(cp) {
		if strings.HasPrefix(p, "harness: ") {
			r.HarnessError(p)
			continue
		}
		r.Report(eng.Violation{Sig: "cross-process: " + seqx.Signature(p), Msg: p, Replay: map[string]any{"engine": "lockx", "case": "handle held by a helper process", "expected_vs_observed": p}})
	}
	r.Cov["cross_process_cases"] = 2
	r.Cov["states"] = states
	r.Cov["transitions"] = trans
	r.Cov["traces_validated_against_impl"] = trans
	r.Cov["evaluations"] = trans
	r.Cov["distinct_nontrivial"] = states
	r.Cov["max_depth_completed"] = maxd
	r.Cov["start_states"] = len(lockx.Starts)
	r.Cov["start_states_explored_to_fixpoint"] = fix
	if fix < len(lockx.Starts) {
		r.Cap(fmt.Sprintf("depth bound %d reached before the frontier ran empty in %d of %d start states", depth, len(lockx.Starts)-fix, len(lockx.Starts)))
	}
	r.Cov["rule"] = "breadth-first search over all sequences of OpenRW / OpenRO / failing Open (index-parameter mismatch under Check, read-write and read-only) / Close / Publish / Publish+Delete attempts through read-only handles on three handle slots of one directory (slots symmetric), from the start states counted in start_states (empty, single segment, multi segment, multi segment without index files, directory never opened before, damaged sealed segment, torn head); read-only opens also with Recover / Check and opens of a missing directory; a state is (slot modes, NextOffset, directory contents); every transition is a real execution of the whole history"
	r.Assumptions = []string{"flock conflicts are per open file description, so handles inside one process exercise the same kernel path as separate processes", "up to three handles, histories up to the reported depth"}
	return r.Finish()
}
