// vx is the harness binary: "vx check <ID> <tier>" runs a property's check,
// "vx worker <engine>" is a worker subprocess, "vx replay <path>" re-executes
// a recorded violation.
package main

import (
	"fmt"
	"os"

	"verif/h/lockx"
)

func main() {
	if len(os.Args) < 2 {
		fmt.Fprintln(os.Stderr, "usage: vx check <ID> <tier> | worker <engine> | replay <path>")
		os.Exit(2)
	}
	switch os.Args[1] {
	case "check":
		if len(os.Args) < 4 {
			fmt.Fprintln(os.Stderr, "usage: vx check <ID> <tier>")
			os.Exit(2)
		}
		os.Exit(runCheck(os.Args[2], os.Args[3]))
	case "worker":
		runWorker(os.Args[2])
	case "replay":
		os.Exit(runReplay(os.Args[2]))
	case "lockhold":
		os.Exit(lockx.Hold(os.Args[2], os.Args[3]))
	default:
		fmt.Fprintln(os.Stderr, "unknown command", os.Args[1])
		os.Exit(2)
	}
}
