// Package codecx is engine E5: exhaustive small-domain round trips of the
// record and index formats against the independent reference codec.
package codecx

import (
	"bytes"
	"fmt"
	"math"
	"os"
	"path/filepath"
	"runtime"
	"sync"
	"sync/atomic"
	"time"

	"github.com/klev-dev/klevdb/pkg/index"
	"github.com/klev-dev/klevdb/pkg/message"

	"verif/h/refcodec"
)

type Problem struct {
	Sig string
	Msg string
	Rep map[string]any
}

type Stats struct {
	Cases    int64 // messages written and read back
	Files    int64
	Distinct int64 // distinct (version, klen, vlen, time, offset) cases
}

var Times = []int64{math.MinInt64, -1, 0, 1, 1_000_000_000_000_000, math.MaxInt64}
var Bases = []int64{0, 1, 1 << 32, math.MaxInt64 - 400}

func fill(n int, seed int) []byte {
	if n == 0 {
		if seed%2 == 0 {
			return nil
		}
		return []byte{}
	}
	b := make([]byte, n)
	for i := range b {
		b[i] = byte(seed*131 + i*7 + (i>>8)*3 + 1)
	}
	return b
}

func mver(v int) message.Version {
	if v == 1 {
		return message.V1
	}
	return message.V2
}

func iver(v int) index.Version {
	if v == 1 {
		return index.V1
	}
	return index.V2
}

// Lens returns the key/value lengths of a tier.
func Lens(tier string) []int {
	var out []int
	if tier == "thorough" {
		for i := 0; i <= 300; i++ {
			out = append(out, i)
		}
		return out
	}
	for i := 0; i <= 64; i++ {
		out = append(out, i)
	}
	return append(out, 255, 256, 257, 300)
}

// Run enumerates klen x vlen x time x base offset x version x reader kind and
// the four index layouts. report is called (serialised) for every problem.
func Run(root, tier string, report func(Problem)) Stats {
	lens := Lens(tier)
	var st Stats
	var mu sync.Mutex
	rep := func(p Problem) {
		mu.Lock()
		defer mu.Unlock()
		report(p)
	}
	type job struct{ ver, klen int }
	jobs := make(chan job, 64)
	var wg sync.WaitGroup
	for g := 0; g < runtime.NumCPU(); g++ {
		wg.Add(1)
		go func(g int) {
			defer wg.Done()
			dir, err := os.MkdirTemp(root, "codecx")
			if err != nil {
				rep(Problem{Sig: "harness", Msg: err.Error()})
				return
			}
			defer os.RemoveAll(dir)
			for j := range jobs {
				for ti, tm := range Times {
					for bi, base := range Bases {
						oneFile(dir, j.ver, j.klen, lens, tm, base, ti*7+bi, &st, rep)
					}
				}
			}
		}(g)
	}
	for _, v := range []int{1, 2} {
		for _, k := range lens {
			jobs <- job{v, k}
		}
	}
	close(jobs)
	wg.Wait()
	// a few large payloads
	dir, err := os.MkdirTemp(root, "codecx")
	if err == nil {
		for _, v := range []int{1, 2} {
			for _, n := range []int{1 << 20, 16 << 20} {
				oneFile(dir, v, n, []int{0, n / 2}, 5, 0, n, &st, rep)
			}
		}
		os.RemoveAll(dir)
	}
	return st
}

func oneFile(dir string, ver, klen int, vlens []int, tm, base int64, seed int, st *Stats, rep func(Problem)) {
	path := filepath.Join(dir, fmt.Sprintf("f%d.log", seed%3))
	_ = os.Remove(path)
	fail := func(sig, format string, a ...any) {
		rep(Problem{Sig: sig, Msg: fmt.Sprintf(format, a...), Rep: map[string]any{"version": ver, "klen": klen, "time_us": tm, "base_offset": base}})
	}
	w, err := message.OpenWriter(path, base, mver(ver))
	if err != nil {
		fail("open writer", "OpenWriter: %v", err)
		return
	}
	// a reader opened before anything was written - what the log keeps for its head segment -
	// must read every record from the position the writer reports, as soon as it is written
	// (skipped, not judged, if such a reader cannot be had or takes the file for the other version)
	live, lerr := message.OpenReader(path, base)
	if lerr != nil || live.Version() != mver(ver) {
		if lerr == nil {
			_ = live.Close()
		}
		live = nil
	}
	defer func() {
		if live != nil {
			_ = live.Close()
		}
	}()
	want := append([]byte(nil), refcodec.LogHeader(ver)...)
	type rec struct {
		m   message.Message
		pos int64
	}
	var recs []rec
	// after the grid: an entirely empty message, key only, value only, entirely empty again
	// (each follows a message of another shape: writers reuse their buffers)
	type kv struct{ k, v int }
	shapes := make([]kv, 0, len(vlens)+4)
	for _, vl := range vlens {
		shapes = append(shapes, kv{klen, vl})
	}
	if klen <= 300 {
		shapes = append(shapes, kv{0, 0}, kv{klen, 0}, kv{0, 3}, kv{0, 0})
	}
	for i, sh := range shapes {
		klen, vl := sh.k, sh.v
		m := message.Message{Offset: base + int64(i), Time: time.UnixMicro(tm).UTC(), Key: fill(klen, seed+i), Value: fill(vl, seed+i+1)}
		before := w.Size()
		pos, err := w.Write(m)
		if err != nil {
			fail("write", "Write(klen=%d vlen=%d): %v", klen, vl, err)
			_ = w.Close()
			return
		}
		if pos != int64(len(want)) {
			fail("position", "record %d (klen=%d vlen=%d v%d) reported at %d, previous record ends at %d", i, klen, vl, ver, pos, len(want))
		}
		enc := refcodec.Encode(ver, m.Offset, tm, m.Key, m.Value)
		want = append(want, enc...)
		if sz := message.Size(m, mver(ver)); sz != int64(len(enc)) || w.Size()-before != sz {
			fail("size", "Size(klen=%d vlen=%d v%d) = %d, documented layout %d, file grew %d", klen, vl, ver, sz, len(enc), w.Size()-before)
		}
		recs = append(recs, rec{m, pos})
		if live != nil {
			lm, lnext, err := live.Read(pos)
			switch {
			case err != nil:
				fail("live read", "reader opened before the writes: Read(record %d klen=%d vlen=%d v%d) right after its Write: %v", i, klen, vl, ver, err)
			case lm.Offset != m.Offset || lm.Time.UnixMicro() != tm || !bytes.Equal(lm.Key, m.Key) || !bytes.Equal(lm.Value, m.Value) || lnext != w.Size():
				fail("live roundtrip", "reader opened before the writes: record %d (klen=%d vlen=%d v%d) read back as off=%d t=%d klen=%d vlen=%d next=%d (file size %d)", i, klen, vl, ver, lm.Offset, lm.Time.UnixMicro(), len(lm.Key), len(lm.Value), lnext, w.Size())
			}
			atomic.AddInt64(&st.Cases, 1)
		}
	}
	if err := w.SyncAndClose(); err != nil {
		fail("close", "SyncAndClose: %v", err)
	}
	got, _ := os.ReadFile(path)
	if !bytes.Equal(got, want) {
		i := 0
		for i < len(got) && i < len(want) && got[i] == want[i] {
			i++
		}
		fail("bytes", "file written by klevdb (v%d klen=%d) differs from the documented layout at byte %d (sizes %d vs %d)", ver, klen, i, len(got), len(want))
	}
	// the file the reference encoder produces is read by both klevdb readers
	if err := os.WriteFile(path, want, 0o600); err != nil {
		fail("harness", "%v", err)
		return
	}
	for kind := 0; kind < 2; kind++ {
		var r *message.Reader
		var err error
		if kind == 0 {
			r, err = message.OpenReader(path, base)
		} else {
			r, err = message.OpenReaderMem(path, base)
		}
		if err != nil {
			fail("open reader", "open reader kind %d on reference bytes (v%d klen=%d base=%d): %v", kind, ver, klen, base, err)
			continue
		}
		if len(recs) > 0 && r.Version() != mver(ver) {
			fail("version", "reader kind %d detected %v on a v%d file", kind, r.Version(), ver)
		}
		pos := r.InitialPosition()
		for i, rc := range recs {
			if pos != rc.pos {
				fail("next position", "reader kind %d: record %d expected at %d, walk is at %d", kind, i, rc.pos, pos)
			}
			m, next, err := r.Read(rc.pos)
			if err != nil {
				fail("read", "reader kind %d: Read(record %d klen=%d vlen=%d v%d t=%d off=%d): %v", kind, i, klen, len(rc.m.Value), ver, tm, rc.m.Offset, err)
				break
			}
			if m.Offset != rc.m.Offset || m.Time.UnixMicro() != tm || !bytes.Equal(m.Key, rc.m.Key) || !bytes.Equal(m.Value, rc.m.Value) {
				fail("roundtrip", "reader kind %d: record %d (klen=%d vlen=%d v%d t=%d off=%d) read back as off=%d t=%d klen=%d vlen=%d", kind, i, klen, len(rc.m.Value), ver, tm, rc.m.Offset, m.Offset, m.Time.UnixMicro(), len(m.Key), len(m.Value))
			}
			g, err := r.Get(rc.pos)
			if err != nil || g.Offset != m.Offset || !bytes.Equal(g.Value, m.Value) {
				fail("get", "reader kind %d: Get(%d) differs from Read", kind, rc.pos)
			}
			pos = next
			atomic.AddInt64(&st.Cases, 1)
		}
		if pos != int64(len(want)) {
			fail("end", "reader kind %d: walk ends at %d, file has %d bytes", kind, pos, len(want))
		}
		if len(recs) > 0 {
			ms, err := r.Consume(recs[0].pos, recs[len(recs)-1].pos, int64(len(recs)+5))
			if err != nil || len(ms) != len(recs) {
				fail("consume", "reader kind %d: Consume over the file returned %d of %d records (%v)", kind, len(ms), len(recs), err)
			}
		}
		_ = r.Close()
	}
	// reference decoder on klevdb's bytes
	rv, rrecs, _, clean := refcodec.ParseLog(got)
	if len(recs) > 0 && (rv != ver || !clean || len(rrecs) != len(recs)) {
		fail("refparse", "reference parser on klevdb's file (v%d klen=%d): version %d clean %v records %d of %d", ver, klen, rv, clean, len(rrecs), len(recs))
	}
	atomic.AddInt64(&st.Files, 1)
	atomic.AddInt64(&st.Distinct, int64(len(recs)))

	// index layouts
	for _, p := range []index.Params{{}, {Times: true}, {Keys: true}, {Times: true, Keys: true}} {
		ipath := filepath.Join(dir, fmt.Sprintf("f%d.index", seed%3))
		_ = os.Remove(ipath)
		iw, err := index.OpenWriter(ipath, base, iver(ver), p)
		if err != nil {
			fail("index open", "index.OpenWriter: %v", err)
			continue
		}
		var items []index.Item
		var rr []refcodec.Rec
		var ts int64
		for _, rc := range recs {
			it := p.NewItem(rc.m, rc.pos, ts)
			ts = it.Timestamp
			items = append(items, it)
			before := iw.Size()
			if err := iw.Write(it); err != nil {
				fail("index write", "index.Write: %v", err)
			}
			if iw.Size()-before != p.Size() || p.Size() != int64(refcodec.ItemSize(p.Times, p.Keys)) {
				fail("index size", "index item (%+v) grew the file by %d, Params.Size() = %d, documented %d", p, iw.Size()-before, p.Size(), refcodec.ItemSize(p.Times, p.Keys))
			}
			rr = append(rr, refcodec.Rec{Off: rc.m.Offset, T: tm, Key: rc.m.Key, Pos: rc.pos})
		}
		if err := iw.SyncAndClose(); err != nil {
			fail("index close", "%v", err)
		}
		ib, _ := os.ReadFile(ipath)
		wantIdx := refcodec.DeriveIndex(ver, p.Times, p.Keys, rr)
		if !bytes.Equal(ib, wantIdx) {
			fail("index bytes", "index file (v%d %+v klen=%d t=%d base=%d) differs from the documented layout (sizes %d vs %d)", ver, p, klen, tm, base, len(ib), len(wantIdx))
		}
		if err := os.WriteFile(ipath, wantIdx, 0o600); err == nil {
			back, err := index.Read(ipath, base, p)
			if err != nil {
				fail("index read", "index.Read of reference bytes (v%d %+v base=%d): %v", ver, p, base, err)
			} else if len(back) != len(items) {
				fail("index read", "index.Read returned %d of %d items", len(back), len(items))
			} else {
				for i := range back {
					if back[i] != items[i] {
						fail("index read", "index.Read item %d = %+v, written %+v", i, back[i], items[i])
						break
					}
				}
			}
			if sz, n, err := index.Stat(ipath, base, p); err != nil || sz != int64(len(wantIdx)) || n != len(items) {
				fail("index stat", "index.Stat = (%d, %d, %v), want (%d, %d)", sz, n, err, len(wantIdx), len(items))
			}
		}
	}
}
