package eng

import (
	"crypto/sha1"
	"encoding/hex"
	"encoding/json"
	"fmt"
	"os"
	"path/filepath"
	"regexp"
	"sort"
	"strconv"
	"time"
)

// VerifDir is where MANIFEST, evidence, replays and known findings live.
// OutDir is where evidence and replays are written (VERIF_OUT overrides it,
// used when checks are pointed at a deliberately changed tree).
func OutDir() string {
	if d := os.Getenv("VERIF_OUT"); d != "" {
		return d
	}
	return VerifDir()
}

func VerifDir() string {
	if d := os.Getenv("VERIF_DIR"); d != "" {
		return d
	}
	return "/verif"
}

type Violation struct {
	Sig    string // canonical signature: what fails, without incidental detail
	Msg    string
	Replay any // engine-specific artefact, must contain everything needed to re-execute
}

type Finding struct {
	Property string `json:"property"`
	Match    string `json:"match"` // regular expression over the violation signature
	What     string `json:"what"`
}

type knownFile struct {
	Findings []Finding `json:"findings"`
	Fixed    []string  `json:"fixed"`
}

type Run struct {
	Prop   string
	Tier   string
	Seed   int
	Level  string
	Engine string
	start  time.Time

	Cov         map[string]any
	Samples     []any
	Assumptions []string
	Exhaustive  bool
	Caps        []string

	known     []Finding
	knownHit  map[int]int
	bySig     map[string]int
	reported  int
	unlisted  int
	otherProp map[string]int
	harness   []string
}

func NewRun(prop, tier, level, engine string) *Run {
	seed := 0
	if s := os.Getenv("VERIF_SEED"); s != "" {
		seed, _ = strconv.Atoi(s)
	}
	r := &Run{Prop: prop, Tier: tier, Seed: seed, Level: level, Engine: engine, start: time.Now(),
		Cov: map[string]any{}, Exhaustive: true, knownHit: map[int]int{}, bySig: map[string]int{}, otherProp: map[string]int{}}
	var kf knownFile
	if b, err := os.ReadFile(filepath.Join(VerifDir(), "known_findings.json")); err == nil {
		if err := json.Unmarshal(b, &kf); err != nil {
			r.HarnessError("known_findings.json: " + err.Error())
		}
	}
	for _, f := range kf.Findings {
		if f.Property == prop {
			r.known = append(r.known, f)
		}
	}
	return r
}

func (r *Run) Elapsed() time.Duration { return time.Since(r.start) }

// HarnessError records a failure of the machinery itself (exit 2).
func (r *Run) HarnessError(s string) {
	r.harness = append(r.harness, s)
	fmt.Fprintln(os.Stderr, "HARNESS-ERROR:", s)
}

// OtherProperty counts a disagreement that belongs to another property's check.
func (r *Run) OtherProperty(p string) { r.otherProp[p]++ }

// Cap notes that a bound or deadline cut the exploration short.
func (r *Run) Cap(s string) {
	r.Exhaustive = false
	r.Caps = append(r.Caps, s)
}

// Report records a violation of this run's property. Known findings are
// counted and announced once; everything else becomes a VIOLATION line with a
// replay artefact (at most 3 artefacts per signature, 25 per run).
func (r *Run) Report(v Violation) {
	for i, f := range r.known {
		re, err := regexp.Compile(f.Match)
		if err != nil {
			r.HarnessError("known finding pattern: " + err.Error())
			continue
		}
		if re.MatchString(v.Sig) {
			if r.knownHit[i] == 0 {
				fmt.Printf("KNOWN-FINDING: property=%s %s\n", r.Prop, f.What)
			}
			r.knownHit[i]++
			return
		}
	}
	r.unlisted++
	r.bySig[v.Sig]++
	if r.bySig[v.Sig] > 3 || r.reported >= 25 {
		return
	}
	r.reported++
	art := map[string]any{"property": r.Prop, "engine": r.Engine, "signature": v.Sig, "message": v.Msg, "replay": v.Replay}
	b, _ := json.MarshalIndent(art, "", " ")
	sum := sha1.Sum(b)
	dir := filepath.Join(OutDir(), "replays", r.Prop)
	_ = os.MkdirAll(dir, 0o755)
	path := filepath.Join(dir, hex.EncodeToString(sum[:6])+".json")
	_ = os.WriteFile(path, b, 0o644)
	fmt.Printf("VIOLATION property=%s replay=%s\n", r.Prop, path)
	fmt.Printf("  %s\n", v.Msg)
}

// Finish writes the evidence file and returns the exit code.
func (r *Run) Finish() int {
	cov := r.Cov
	cov["exhaustive"] = r.Exhaustive
	if len(r.Caps) > 0 {
		cov["caps_hit"] = r.Caps
	}
	if len(r.Samples) > 0 {
		cov["samples"] = r.Samples
	} else {
		cov["samples"] = []any{"(none recorded)"}
	}
	if len(r.otherProp) > 0 {
		cov["disagreements_charged_to_other_properties"] = r.otherProp
	}
	known := 0
	for _, n := range r.knownHit {
		known += n
	}
	cov["known_finding_hits"] = known
	if len(r.bySig) > 0 {
		var sigs []string
		for s, n := range r.bySig {
			sigs = append(sigs, fmt.Sprintf("%dx %s", n, s))
		}
		sort.Strings(sigs)
		if len(sigs) > 20 {
			sigs = sigs[:20]
		}
		cov["violation_signatures"] = sigs
	}
	ev := map[string]any{
		"property_id": r.Prop,
		"tier":        r.Tier,
		"seed":        r.Seed,
		"level":       r.Level,
		"coverage":    cov,
		"assumptions": r.Assumptions,
		"wall_s":      float64(int(time.Since(r.start).Seconds()*100)) / 100,
		"violations":  r.unlisted,
		"engine":      r.Engine,
	}
	if r.Assumptions == nil {
		ev["assumptions"] = []string{}
	}
	b, _ := json.MarshalIndent(ev, "", " ")
	dir := filepath.Join(OutDir(), "evidence")
	_ = os.MkdirAll(dir, 0o755)
	if err := os.WriteFile(filepath.Join(dir, r.Prop+".json"), append(b, '\n'), 0o644); err != nil {
		r.HarnessError(err.Error())
	}
	// a violation that was found stands, whatever else went wrong in the same run
	switch {
	case r.unlisted > 0:
		return 1
	case len(r.harness) > 0:
		return 2
	default:
		return 0
	}
}
