// Package eng holds what all engines share: the worker-process pool, the
// evidence writer, replay artefacts and the known-findings file.
package eng

import (
	"bufio"
	"bytes"
	"encoding/json"
	"fmt"
	"io"
	"os"
	"os/exec"
	"runtime"
	"strings"
	"sync"
	"time"
)

// Pool runs tasks on worker subprocesses (the same binary started with
// "worker <engine>"). Every worker handles one task at a time; a worker that
// dies or exceeds the per-task guard is replaced and the task is reported.
type Pool struct {
	Engine  string
	N       int
	Guard   time.Duration
	Env     []string
	Bin     string // worker binary (default: this executable)
	Capture bool   // keep the tail of a worker's stderr and attach it to the error when it dies
	tasks   chan poolTask
	wg      sync.WaitGroup
	started bool
}

type poolTask struct {
	in  any
	out func(raw json.RawMessage, err error)
}

func NewPool(engine string) *Pool {
	n := runtime.NumCPU()
	if s := os.Getenv("VERIF_WORKERS"); s != "" {
		fmt.Sscan(s, &n)
	}
	if n < 1 {
		n = 1
	}
	return &Pool{Engine: engine, N: n, Guard: 120 * time.Second}
}

type worker struct {
	cmd *exec.Cmd
	in  io.WriteCloser
	out *bufio.Reader
	err *tailBuf
}

// tailBuf keeps the last bytes written to it.
type tailBuf struct {
	mu  sync.Mutex
	buf []byte
}

func (t *tailBuf) Write(p []byte) (int, error) {
	t.mu.Lock()
	defer t.mu.Unlock()
	t.buf = append(t.buf, p...)
	if len(t.buf) > 1<<16 {
		t.buf = t.buf[len(t.buf)-1<<15:]
	}
	return len(p), nil
}

func (t *tailBuf) String() string {
	t.mu.Lock()
	defer t.mu.Unlock()
	return string(t.buf)
}

func (p *Pool) spawn() (*worker, error) {
	self := p.Bin
	if self == "" {
		var err error
		if self, err = os.Executable(); err != nil {
			return nil, err
		}
	}
	cmd := exec.Command(self, "worker", p.Engine)
	cmd.Env = append(os.Environ(), "GOMAXPROCS=2", "GOGC=200")
	cmd.Env = append(cmd.Env, p.Env...)
	var tb *tailBuf
	if p.Capture {
		tb = &tailBuf{}
		cmd.Stderr = tb
	} else {
		cmd.Stderr = os.Stderr
	}
	in, err := cmd.StdinPipe()
	if err != nil {
		return nil, err
	}
	out, err := cmd.StdoutPipe()
	if err != nil {
		return nil, err
	}
	if err := cmd.Start(); err != nil {
		return nil, err
	}
	return &worker{cmd: cmd, in: in, out: bufio.NewReaderSize(out, 1<<20), err: tb}, nil
}

func (w *worker) kill() {
	_ = w.in.Close()
	_ = w.cmd.Process.Kill()
	_ = w.cmd.Wait()
}

func (p *Pool) Start() {
	p.tasks = make(chan poolTask, p.N*4)
	p.started = true
	for i := 0; i < p.N; i++ {
		p.wg.Add(1)
		go func() {
			defer p.wg.Done()
			var w *worker
			defer func() {
				if w != nil {
					w.kill()
				}
			}()
			for t := range p.tasks {
				if w == nil {
					var err error
					if w, err = p.spawn(); err != nil {
						t.out(nil, fmt.Errorf("spawn worker: %w", err))
						continue
					}
				}
				raw, err := p.roundTrip(w, t.in)
				if err != nil || bytes.Contains(raw, []byte(`"Restart":true`)) {
					// dead, hung, or asking to be replaced (it left a goroutine behind that never ends)
					w.kill()
					w = nil
				}
				t.out(raw, err)
			}
		}()
	}
}

// DiedError is returned (with Capture) when the worker process exited while handling a task.
type DiedError struct {
	Stderr string
	Exit   int
}

func (d *DiedError) Error() string { return fmt.Sprintf("worker exited with code %d", d.Exit) }

// ErrHung is returned when a task exceeded the guard.
var ErrHung = fmt.Errorf("worker exceeded the per-task guard")

func (p *Pool) roundTrip(w *worker, in any) (json.RawMessage, error) {
	b, err := json.Marshal(in)
	if err != nil {
		return nil, err
	}
	b = append(b, '\n')
	if _, err := w.in.Write(b); err != nil {
		return nil, fmt.Errorf("worker write: %w", err)
	}
	type res struct {
		line []byte
		err  error
	}
	ch := make(chan res, 1)
	go func() {
		line, err := w.out.ReadBytes('\n')
		ch <- res{line, err}
	}()
	// The guard is not a wall-clock deadline (a loaded machine must never produce a verdict):
	// a task is declared hung when its worker has been *idle* for a whole guard period
	// (blocked: less than 2% of it spent on the CPU), or when it has *burnt* 4 guard periods of
	// CPU time on this one task (spinning). A worker that is merely slow is waited for.
	start := time.Now()
	cpu0 := procCPU(w.cmd.Process.Pid)
	type sample struct {
		at  time.Time
		cpu time.Duration
	}
	samples := []sample{{start, cpu0}}
	tick := time.NewTicker(p.Guard / 8)
	defer tick.Stop()
	for {
		select {
		case r := <-ch:
			if r.err != nil {
				if w.err != nil {
					_ = w.cmd.Wait()
					return nil, &DiedError{Stderr: w.err.String(), Exit: w.cmd.ProcessState.ExitCode()}
				}
				return nil, fmt.Errorf("worker died: %w", r.err)
			}
			return json.RawMessage(r.line), nil
		case now := <-tick.C:
			cpu := procCPU(w.cmd.Process.Pid)
			if cpu < 0 || cpu0 < 0 {
				// no /proc: fall back to a generous wall-clock guard
				if now.Sub(start) >= 10*p.Guard {
					return nil, ErrHung
				}
				continue
			}
			samples = append(samples, sample{now, cpu})
			for len(samples) > 1 && now.Sub(samples[1].at) >= p.Guard {
				samples = samples[1:]
			}
			if w := now.Sub(samples[0].at); w >= p.Guard && cpu-samples[0].cpu < w/50 {
				return nil, ErrHung
			}
			if cpu-cpu0 >= 4*p.Guard {
				return nil, ErrHung
			}
		}
	}
}

// procCPU returns the CPU time (user + system) a process has used, or -1.
func procCPU(pid int) time.Duration {
	b, err := os.ReadFile(fmt.Sprintf("/proc/%d/stat", pid))
	if err != nil {
		return -1
	}
	// fields after the command name, which is in parentheses and may contain spaces
	i := strings.LastIndexByte(string(b), ')')
	if i < 0 {
		return -1
	}
	f := strings.Fields(string(b[i+1:]))
	if len(f) < 13 {
		return -1
	}
	var ut, st int64
	fmt.Sscan(f[11], &ut)
	fmt.Sscan(f[12], &st)
	return time.Duration(ut+st) * (time.Second / 100) // USER_HZ is 100 on Linux
}

// Submit queues a task; out is called from a pool goroutine.
func (p *Pool) Submit(in any, out func(raw json.RawMessage, err error)) {
	p.tasks <- poolTask{in, out}
}

func (p *Pool) Close() {
	if p.started {
		close(p.tasks)
		p.wg.Wait()
		p.started = false
	}
}

// Map runs all tasks and calls out for each result (serialised).
func Map[T any](p *Pool, tasks []T, out func(i int, raw json.RawMessage, err error)) {
	var mu sync.Mutex
	var wg sync.WaitGroup
	for i, t := range tasks {
		wg.Add(1)
		i := i
		p.Submit(t, func(raw json.RawMessage, err error) {
			mu.Lock()
			defer mu.Unlock()
			defer wg.Done()
			out(i, raw, err)
		})
	}
	wg.Wait()
}

// ServeWorker is the worker side: one JSON task per line in, one result out.
func ServeWorker(handle func(raw json.RawMessage) any) {
	in := bufio.NewReaderSize(os.Stdin, 1<<20)
	out := bufio.NewWriterSize(os.Stdout, 1<<20)
	for {
		line, err := in.ReadBytes('\n')
		if len(line) > 0 {
			res := handle(json.RawMessage(line))
			b, merr := json.Marshal(res)
			if merr != nil {
				b, _ = json.Marshal(map[string]string{"HarnessError": merr.Error()})
			}
			out.Write(b)
			out.WriteByte('\n')
			out.Flush()
		}
		if err != nil {
			return
		}
	}
}
