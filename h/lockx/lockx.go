// Package lockx decides C19: breadth-first search over all sequences of
// open / close / publish on up to three handles of one directory, on the real
// code, against the reader/writer exclusion matrix; read-only handles are
// compared with the model and must leave the log files untouched.
package lockx

import (
	"bufio"
	"crypto/sha1"
	"encoding/hex"
	"errors"
	"fmt"
	"os"
	"os/exec"
	"path/filepath"
	"sort"
	"strings"
	"syscall"

	"github.com/klev-dev/klevdb"

	"verif/h/drv"
)

const slots = 3

type Start struct {
	Name   string
	Prefix []string // letters applied through a temporary read-write handle
	RmIdx  bool     // remove the index files afterwards
	Damage bool     // flip one byte inside a record of the oldest segment (reads of it fail)
	Torn   bool     // three stray bytes after the last record of the newest segment (a torn append)
	IdxCut bool     // the index file of the newest segment lost its last three bytes (not a whole number of items)
	Stray  bool     // a file "import.log" whose name is not a base offset: listing the segments fails, so every Open fails after it took the lock
}

var Starts = []Start{
	{"empty", nil, false, false, false, false, false},
	{"single", []string{"P:0/1/u"}, false, false, false, false, false},
	{"multi", []string{"P:0/1/u", "P:1/1/u", "P:0/1/u", "P:1/1/u", "P:0/1/u"}, false, false, false, false, false},
	{"multi-noindex", []string{"P:0/1/u", "P:1/1/u", "P:0/1/u"}, true, false, false, false, false},
	{"never-opened", nil, false, false, false, false, false}, // the directory exists but was never opened before the search
	{"multi-damaged", []string{"P:0/1/u", "P:1/1/u", "P:0/1/u", "P:1/1/u", "P:0/1/u"}, false, true, false, false, false},
	{"head-torn", []string{"P:0/1/u", "P:1/1/u", "P:0/1/u"}, false, false, true, false, false},
	// the head segment [2 3 4] lost its middle message: offsets in it are not dense
	{"head-gap", []string{"P:0/1/u", "P:1/1/u", "P:0/1/u,1/1/u,0/1/u", "D:3"}, false, false, false, false, false},
	// the newest message was deleted: the log ends in an empty head segment whose base offset is the next offset
	{"tail-deleted", []string{"P:0/1/u", "P:1/1/u", "P:0/1/u", "D:2"}, false, false, false, false, false},
	// the head's index file is cut short: a lazily loading (read-only) handle only finds out at its first read
	{"head-index-cut", []string{"P:0/1/u", "P:1/1/u", "P:0/1/u"}, false, false, false, true, false},
	// a stray *.log file that is not a segment: Open fails while it lists the directory, after the lock was taken
	{"stray-log", []string{"P:0/1/u", "P:1/1/u", "P:0/1/u"}, false, false, false, false, true},
}

var cfg = drv.Cfg{Keys: true, Times: true, Rollover: 60, Ver: 2}

type sys struct {
	damaged    bool
	unopenable bool // every Open is expected (not required) to fail, with whatever error: what matters is what it leaves behind
	w          *drv.World
	h          [slots]klevdb.Log
	mode       [slots]int  // 0 closed, 1 rw, 2 ro
	blk        [slots]bool // opened through OpenBlocking (part of the state: another code path answers Publish and Close)
	read       [slots]bool // the handle has been read through (segments loaded, pins taken and released): part of the state too
	logsAt     [slots]string
	problem    []string
}

func (s *sys) failf(format string, a ...any) {
	s.problem = append(s.problem, fmt.Sprintf(format, a...))
}

func logsDigest(dir string) string {
	h := sha1.New()
	names, _ := filepath.Glob(filepath.Join(dir, "*.log"))
	sort.Strings(names)
	for _, n := range names {
		b, _ := os.ReadFile(n)
		fmt.Fprintf(h, "%s:%d:", filepath.Base(n), len(b))
		h.Write(b)
	}
	return hex.EncodeToString(h.Sum(nil)[:8])
}

func build(root string, st Start, hist []string) (*sys, error) {
	w, err := drv.NewWorld(root, cfg)
	if err != nil {
		return nil, err
	}
	s := &sys{w: w}
	if st.Name == "never-opened" {
		// a directory that has never seen an Open: no .lock file yet
		_ = w.L.Close()
		w.L = nil
		_ = os.RemoveAll(w.Dir)
		if err := os.MkdirAll(w.Dir, 0o700); err != nil {
			return nil, err
		}
	} else {
		for _, l := range st.Prefix {
			if !w.Apply(l) {
				w.Cleanup()
				return nil, fmt.Errorf("prefix letter %s failed: %v", l, w.Dis)
			}
		}
		if err := w.L.Close(); err != nil {
			return nil, err
		}
		w.L = nil
		if st.RmIdx {
			idx, _ := filepath.Glob(filepath.Join(w.Dir, "*.index"))
			for _, p := range idx {
				_ = os.Remove(p)
			}
		}
		if st.Torn {
			s.damaged = true
			logs, _ := filepath.Glob(filepath.Join(w.Dir, "*.log"))
			sort.Strings(logs)
			if f, err := os.OpenFile(logs[len(logs)-1], os.O_WRONLY|os.O_APPEND, 0); err == nil {
				_, _ = f.Write([]byte{1, 2, 3})
				_ = f.Close()
			}
		}
		if st.IdxCut {
			s.damaged = true
			idx, _ := filepath.Glob(filepath.Join(w.Dir, "*.index"))
			sort.Strings(idx)
			if b, err := os.ReadFile(idx[len(idx)-1]); err == nil && len(b) > 3 {
				_ = os.WriteFile(idx[len(idx)-1], b[:len(b)-3], 0o600)
			}
		}
		if st.Stray {
			s.damaged = true
			s.unopenable = true
			_ = os.WriteFile(filepath.Join(w.Dir, "import.log"), []byte("not a segment"), 0o600)
		}
		if st.Damage {
			s.damaged = true
			logs, _ := filepath.Glob(filepath.Join(w.Dir, "*.log"))
			sort.Strings(logs)
			if b, err := os.ReadFile(logs[0]); err == nil && len(b) > 40 {
				b[40] ^= 0xFF
				_ = os.WriteFile(logs[0], b, 0o600)
			}
		}
	}
	for _, l := range hist {
		s.apply(l)
		if len(s.problem) > 0 {
			s.close()
			return nil, fmt.Errorf("replay of %v diverged at %s: %v", hist, l, s.problem)
		}
	}
	return s, nil
}

func (s *sys) close() {
	for i := range s.h {
		if s.h[i] != nil {
			_ = s.h[i].Close()
			s.h[i] = nil
		}
	}
	s.w.L = nil
	s.w.Cleanup()
}

func (s *sys) anyOpen(mode int) bool {
	for _, m := range s.mode {
		if m == mode {
			return true
		}
	}
	return false
}

func (s *sys) rw() int {
	for i, m := range s.mode {
		if m == 1 {
			return i
		}
	}
	return -1
}

// letters enabled in the current state
func (s *sys) letters() []string {
	var ls []string
	for i := 0; i < slots; i++ {
		if s.mode[i] == 0 {
			// slots are symmetric: only the lowest closed slot is opened
			ls = append(ls, fmt.Sprintf("OpenRW:%d", i), fmt.Sprintf("OpenRO:%d", i), fmt.Sprintf("OpenMissing:%d", i), fmt.Sprintf("OpenRORec:%d", i), fmt.Sprintf("OpenROChk:%d", i))
			// the blocking entry point is an Open too
			ls = append(ls, fmt.Sprintf("OpenBRW:%d", i), fmt.Sprintf("OpenBRO:%d", i))
			// and so is its typed twin (typed_blocking.go): opened in both modes and closed at once
			ls = append(ls, fmt.Sprintf("OpenTB:%d", i))
			if s.headIndexExists() {
				ls = append(ls, fmt.Sprintf("OpenFailRW:%d", i), fmt.Sprintf("OpenFailRO:%d", i))
			}
			break
		}
	}
	for i := 0; i < slots; i++ {
		if s.mode[i] != 0 {
			ls = append(ls, fmt.Sprintf("Close:%d", i), fmt.Sprintf("Write:%d", i), fmt.Sprintf("Read:%d", i), fmt.Sprintf("GC:%d", i))
		}
	}
	if s.rw() >= 0 && s.w.M.Next < 4 {
		ls = append(ls, "P1", "P2")
	}
	return ls
}

// headIndexExists: the newest segment has an index file with a header to mismatch.
func (s *sys) headIndexExists() bool {
	logs, _ := filepath.Glob(filepath.Join(s.w.Dir, "*.log"))
	if len(logs) == 0 {
		return false
	}
	sort.Strings(logs)
	st, err := os.Stat(strings.TrimSuffix(logs[len(logs)-1], ".log") + ".index")
	return err == nil && st.Size() >= 8
}

func (s *sys) apply(letter string) {
	kind, arg, _ := strings.Cut(letter, ":")
	i := 0
	fmt.Sscan(arg, &i)
	w := s.w
	switch kind {
	case "OpenRORec", "OpenROChk":
		// read-only with Recover (documented to be downgraded to a check) or Check: whatever the
		// outcome, a read-only open never changes a log file; if it succeeds it is closed again
		o := cfg.Options()
		o.Readonly = true
		o.Recover = kind == "OpenRORec"
		o.Check = kind == "OpenROChk"
		before := logsDigest(w.Dir)
		l, err := klevdb.Open(w.Dir, o)
		if err == nil {
			if s.anyOpen(1) {
				s.failf("%s succeeded while the directory is open read-write (slots %v)", letter, s.mode)
			}
			_ = l.Close()
		}
		if d := logsDigest(w.Dir); d != before {
			s.failf("%s (read-only) changed a log file (open error: %v)", letter, err)
		}
	case "OpenMissing":
		// a directory that does not exist, without CreateDirs: must fail, in both modes, and change nothing
		for _, ro := range []bool{false, true} {
			o := cfg.Options()
			o.Readonly = ro
			if l, err := klevdb.Open(filepath.Join(w.Dir, "missing", "dir"), o); err == nil {
				s.failf("Open(readonly=%v) of a missing directory without CreateDirs succeeded", ro)
				_ = l.Close()
			}
		}
	case "OpenTB":
		// the typed blocking entry point: same lock matrix, a refusal (or a failure after the log was
		// opened: the wrapper asks for NextOffset) leaves no lock behind (probe after the letter), a
		// read-only open changes nothing; a handle it returns is closed again
		for _, ro := range []bool{true, false} {
			o := cfg.Options()
			o.Readonly = ro
			before := logsDigest(w.Dir)
			tl, err := klevdb.OpenTBlocking[string, string](w.Dir, o, klevdb.StringCodec, klevdb.StringCodec)
			allowed := !s.anyOpen(1) && (ro || !s.anyOpen(2))
			switch {
			case err == nil && !allowed:
				s.failf("OpenTBlocking(readonly=%v) succeeded while the directory is open (slots %v)", ro, s.mode)
			case err != nil && allowed && !s.damaged:
				s.failf("OpenTBlocking(readonly=%v) failed although nothing conflicting is open (slots %v): %v", ro, s.mode, err)
			}
			if err == nil {
				if cerr := tl.Close(); cerr != nil {
					s.failf("Close of a typed blocking handle failed: %v", cerr)
				}
			}
			if ro || err != nil && !allowed {
				if d := logsDigest(w.Dir); d != before {
					s.failf("OpenTBlocking(readonly=%v) changed a log file (open error: %v)", ro, err)
				}
			}
		}
	case "OpenFailRW", "OpenFailRO":
		// index parameters that do not match the head's index file: with Check the
		// open fails after the lock has been taken and before anything is written
		o := cfg.Options()
		o.Readonly = kind == "OpenFailRO"
		o.KeyIndex = false
		o.Check = true
		l, err := klevdb.Open(w.Dir, o)
		if err == nil {
			if s.anyOpen(1) || (!o.Readonly && s.anyOpen(2)) {
				s.failf("%s succeeded while the directory is open (slots %v)", letter, s.mode)
			}
			_ = l.Close()
		}
		// either way the lock matrix is unchanged; later letters verify that the lock was released
	case "OpenRW", "OpenRO", "OpenBRW", "OpenBRO":
		o := cfg.Options()
		ro := kind == "OpenRO" || kind == "OpenBRO"
		o.Readonly = ro
		logs := logsDigest(w.Dir)
		var l klevdb.Log
		var err error
		if strings.HasPrefix(kind, "OpenB") {
			var bl klevdb.BlockingLog
			bl, err = klevdb.OpenBlocking(w.Dir, o)
			if err == nil {
				l = bl
			}
		} else {
			l, err = klevdb.Open(w.Dir, o)
		}
		if ro {
			if d := logsDigest(w.Dir); d != logs {
				s.failf("%s (read-only) changed a log file (open error: %v)", letter, err)
			}
		}
		allowed := !s.anyOpen(1) && (ro || !s.anyOpen(2))
		switch {
		case err == nil && !allowed:
			s.failf("%s succeeded while the directory is open (slots %v)", letter, s.mode)
			_ = l.Close()
		case err != nil && allowed && s.unopenable:
			// refused because of what is in the directory: the refusal must leave no lock behind (probe below)
		case err != nil && allowed && s.damaged && strings.Contains(err.Error(), "corrupted"):
			// a damaged directory may refuse to open; what matters is that the refusal leaves no lock behind (probe below)
		case err != nil && allowed:
			s.failf("%s failed although nothing conflicting is open (slots %v): %v", letter, s.mode, err)
		case err == nil:
			s.h[i] = l
			s.blk[i] = strings.HasPrefix(kind, "OpenB")
			s.mode[i] = 1
			if ro {
				s.mode[i] = 2
				s.read[i] = true // the observation below reads through everything
				s.logsAt[i] = logs
				// a read-only handle answers like the model says (same files)
				save := w.L
				w.L = l
				nd := len(w.Dis)
				w.Observe(drv.ObsAll &^ drv.ObsTrim)
				w.L = save
				for _, d := range w.Dis[nd:] {
					if !strings.HasPrefix(d.Msg, "pre-epoch") && !s.damaged {
						s.failf("read-only handle: %s", d.Msg)
					}
				}
				w.Dis = w.Dis[:nd]
			}
		}
	case "Close":
		if s.mode[i] == 2 {
			if d := logsDigest(w.Dir); d != s.logsAt[i] {
				s.failf("a log file changed during a read-only session")
			}
		}
		if err := s.h[i].Close(); err != nil {
			s.failf("Close of slot %d failed: %v", i, err)
		}
		s.h[i], s.mode[i], s.blk[i], s.read[i] = nil, 0, false, false
	case "Read":
		// read through the whole log, whatever it answers (reads of a damaged segment fail)
		for off := int64(-2); off <= s.w.M.Next; off++ {
			_, _, _ = s.h[i].Consume(off, 40)
			_, _ = s.h[i].Get(off)
		}
		_, _ = s.h[i].GetByKey(drv.Keys[0])
		s.read[i] = true
	case "GC":
		// unload everything that may be unloaded; the handle answers like before (it is read
		// through again: whatever was dropped has to come back)
		if err := s.h[i].GC(0); err != nil {
			s.failf("GC(0) on slot %d failed: %v", i, err)
		}
		s.read[i] = false
		if !s.damaged {
			save := w.L
			w.L = s.h[i]
			nd := len(w.Dis)
			w.Observe(drv.ObsNext | drv.ObsWalk | drv.ObsGet | drv.ObsKey | drv.ObsStat)
			w.L = save
			for _, d := range w.Dis[nd:] {
				if !strings.HasPrefix(d.Msg, "pre-epoch") {
					s.failf("after GC(0) (handle mode %d): %s", s.mode[i], d.Msg)
				}
			}
			w.Dis = w.Dis[:nd]
			s.read[i] = true
		}
	case "Write":
		// Publish/Delete through this handle: read-only handles must refuse
		if s.mode[i] == 2 {
			_, err := s.h[i].Publish([]klevdb.Message{{Key: []byte("x"), Value: []byte("y")}})
			if !errors.Is(err, klevdb.ErrReadonly) {
				s.failf("Publish on a read-only handle = %v, want ErrReadonly", err)
			}
			_, _, err = s.h[i].Delete(map[int64]struct{}{0: {}})
			if !errors.Is(err, klevdb.ErrReadonly) {
				s.failf("Delete on a read-only handle = %v, want ErrReadonly", err)
			}
			// also when there is nothing to publish or delete
			for _, batch := range [][]klevdb.Message{nil, {}} {
				if _, err := s.h[i].Publish(batch); !errors.Is(err, klevdb.ErrReadonly) {
					s.failf("Publish of an empty batch on a read-only handle = %v, want ErrReadonly", err)
				}
			}
			if _, _, err := s.h[i].Delete(map[int64]struct{}{}); !errors.Is(err, klevdb.ErrReadonly) {
				s.failf("Delete of an empty set on a read-only handle = %v, want ErrReadonly", err)
			}
			if d := logsDigest(w.Dir); d != s.logsAt[i] {
				s.failf("a log file changed during a read-only session")
			}
		}
	case "P1", "P2":
		w.L = s.h[s.rw()]
		n := 1
		if kind == "P2" {
			n = 2
		}
		var sp []string
		for j := 0; j < n; j++ {
			sp = append(sp, fmt.Sprintf("%d/1/u", (int(w.M.Next)+j)%2))
		}
		nd := len(w.Dis)
		w.Apply("P:" + strings.Join(sp, ","))
		for _, d := range w.Dis[nd:] {
			s.failf("writer: %s", d.Msg)
		}
		w.Dis = w.Dis[:nd]
		w.L = nil
	default:
		panic("unknown letter " + letter)
	}
	s.probeLock(letter)
}

// probeLock asks the kernel directly: with an open file description of its own on the
// lock file, an exclusive flock must be obtainable when no handle is open, a shared one
// when no read-write handle is open (a failed or closed Open must not leave a lock behind).
func (s *sys) probeLock(letter string) {
	f, err := os.Open(filepath.Join(s.w.Dir, ".lock"))
	if err != nil {
		return // never opened yet: nothing can hold a lock
	}
	defer f.Close()
	try := func(how int) bool {
		if err := syscall.Flock(int(f.Fd()), how|syscall.LOCK_NB); err != nil {
			return false
		}
		_ = syscall.Flock(int(f.Fd()), syscall.LOCK_UN)
		return true
	}
	wantSh := !s.anyOpen(1)
	wantEx := !s.anyOpen(1) && !s.anyOpen(2)
	// only the "released" direction is asserted here (that a lock is held while a handle is
	// open is what the open matrix itself checks, whatever locking primitive is used)
	if wantSh && !try(syscall.LOCK_SH) {
		s.failf("after %s a shared lock on the directory cannot be taken although no read-write handle is open (slots %v): a lock was left behind", letter, s.mode)
	}
	if wantEx && !try(syscall.LOCK_EX) {
		s.failf("after %s an exclusive lock on the directory cannot be taken although no handle is open (slots %v): a lock was left behind", letter, s.mode)
	}
}

func (s *sys) key() string {
	return fmt.Sprintf("%v|%v|%v|%d|%s", s.mode, s.blk, s.read, s.w.M.Next, drv.DirDigest(s.w.Dir, true))
}

type Result struct {
	States, Transitions, Depth int
	Fixpoint                   bool // the frontier ran empty: every reachable state was expanded
	Problems                   []Problem
	Sample                     []string
	HarnessErr                 string
}

type Problem struct {
	Msg   string
	Start string
	Hist  []string
}

// Explore runs the search for one start state (sequentially: the space is small).
func Explore(root string, st Start, depth int) Result {
	res := Result{}
	seen := map[string]bool{}
	frontier := [][]string{{}}
	for d := 1; d <= depth && len(frontier) > 0; d++ {
		var next [][]string
		for _, h := range frontier {
			s, err := build(root, st, h)
			if err != nil {
				res.HarnessErr = err.Error()
				return res
			}
			ls := s.letters()
			s.close()
			for _, l := range ls {
				s, err := build(root, st, h)
				if err != nil {
					res.HarnessErr = err.Error()
					return res
				}
				s.apply(l)
				res.Transitions++
				hist := append(append([]string{}, h...), l)
				if len(s.problem) > 0 {
					for _, p := range s.problem {
						res.Problems = append(res.Problems, Problem{Msg: p, Start: st.Name, Hist: hist})
					}
				} else if k := s.key(); !seen[k] {
					seen[k] = true
					next = append(next, hist)
				}
				s.close()
			}
		}
		frontier = next
		res.Depth = d
		if len(frontier) > 0 {
			res.Sample = frontier[len(frontier)/2]
		}
	}
	res.States = len(seen) + 1
	res.Fixpoint = len(frontier) == 0
	return res
}

// Hold is the body of the helper process of the cross-process case: it opens
// dir in the given mode ("rw" or "ro"), reports the result on stdout and keeps
// the handle until its stdin is closed.
func Hold(dir, mode string) int {
	o := cfg.Options()
	o.Readonly = mode == "ro"
	l, err := klevdb.Open(dir, o)
	if err != nil {
		fmt.Println("FAIL", err)
		return 1
	}
	fmt.Println("OPEN")
	buf := make([]byte, 1)
	_, _ = os.Stdin.Read(buf)
	if err := l.Close(); err != nil {
		fmt.Println("CLOSEFAIL", err)
		return 1
	}
	return 0
}

// CrossProcess runs the exclusion matrix against a handle held by another
// process (flock is per open file description; this is the sanity case that
// in-process handles exercise the same kernel path).
func CrossProcess(root string) []string {
	var problems []string
	self, err := os.Executable()
	if err != nil {
		return []string{"harness: " + err.Error()}
	}
	for _, mode := range []string{"rw", "ro"} {
		w, err := drv.NewWorld(root, cfg)
		if err != nil {
			return []string{"harness: " + err.Error()}
		}
		w.Apply("P:0/1/u")
		_ = w.L.Close()
		w.L = nil
		cmd := exec.Command(self, "lockhold", w.Dir, mode)
		stdin, _ := cmd.StdinPipe()
		stdout, _ := cmd.StdoutPipe()
		if err := cmd.Start(); err != nil {
			w.Cleanup()
			return []string{"harness: " + err.Error()}
		}
		line, _ := bufio.NewReader(stdout).ReadString('\n')
		if strings.TrimSpace(line) != "OPEN" {
			problems = append(problems, "helper process could not open the directory: "+line)
		} else {
			o := cfg.Options()
			if l, err := klevdb.Open(w.Dir, o); err == nil {
				problems = append(problems, fmt.Sprintf("read-write Open succeeded while another process holds the directory open %s", mode))
				_ = l.Close()
			}
			o.Readonly = true
			l, err := klevdb.Open(w.Dir, o)
			switch {
			case mode == "rw" && err == nil:
				problems = append(problems, "read-only Open succeeded while another process holds the directory open read-write")
				_ = l.Close()
			case mode == "ro" && err != nil:
				problems = append(problems, "read-only Open failed while another process holds the directory open read-only: "+err.Error())
			case err == nil:
				_ = l.Close()
			}
		}
		_ = stdin.Close()
		if err := cmd.Wait(); err != nil {
			problems = append(problems, "helper process: Close failed: "+err.Error())
		}
		if l, err := klevdb.Open(w.Dir, cfg.Options()); err != nil {
			problems = append(problems, "read-write Open failed after the other process closed its handle: "+err.Error())
		} else {
			_ = l.Close()
		}
		w.Cleanup()
	}
	return problems
}

// Replay re-executes one history from a named start state.
func Replay(root, start string, hist []string) ([]string, error) {
	for _, st := range Starts {
		if st.Name != start {
			continue
		}
		if len(hist) == 0 {
			return nil, nil
		}
		s, err := build(root, st, hist[:len(hist)-1])
		if err != nil {
			return nil, err
		}
		defer s.close()
		s.apply(hist[len(hist)-1])
		return s.problem, nil
	}
	return nil, fmt.Errorf("unknown start state %s", start)
}
