package drv

import (
	"crypto/sha1"
	"encoding/hex"
	"fmt"
	"os"
	"path/filepath"
	"sort"
	"strings"

	"github.com/klev-dev/klevdb/pkg/vshim/vtime"
)

// DirDigest hashes names and contents of all files in dir (sorted by name).
func DirDigest(dir string, skipLock bool) string {
	h := sha1.New()
	ents, _ := os.ReadDir(dir)
	var names []string
	for _, e := range ents {
		if skipLock && e.Name() == ".lock" {
			continue
		}
		names = append(names, e.Name())
	}
	sort.Strings(names)
	for _, n := range names {
		data, _ := os.ReadFile(filepath.Join(dir, n))
		fmt.Fprintf(h, "%s:%d:", n, len(data))
		h.Write(data)
	}
	return hex.EncodeToString(h.Sum(nil)[:10])
}

// Key is the canonical state key: options in force, model, file contents,
// in-memory dump of the handle (or the since-open history when the dump is
// not available) and the logical clock.
func (w *World) Key() string {
	h := sha1.New()
	fmt.Fprintf(h, "%s|%d|%v|%d|", w.Cfg, w.M.Next, w.M.Monotone, w.M.LastT)
	for _, m := range w.M.Live {
		fmt.Fprintf(h, "%d,%d,%x,%x;", m.Off, m.T, m.Key, m.Val)
	}
	fmt.Fprintf(h, "|%s|%d|", DirDigest(w.Dir, true), vtime.Clock().UnixMicro())
	if w.BkDir != "" {
		fmt.Fprintf(h, "bk:%s:%v:%d|", DirDigest(w.BkDir, true), w.BkClean, w.bkN)
	}
	if w.L == nil {
		fmt.Fprint(h, "closed")
	} else if HaveDump {
		fmt.Fprint(h, dumpState(w.L))
	} else {
		fmt.Fprint(h, strings.Join(w.Hist[w.sinceOpen:], " "))
	}
	return hex.EncodeToString(h.Sum(nil)[:12])
}

// Dump exposes the in-memory dump (diagnostics).
func (w *World) Dump() string {
	if w.L == nil {
		return "closed"
	}
	return dumpState(w.L)
}
