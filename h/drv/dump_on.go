//go:build verif

package drv

import "github.com/klev-dev/klevdb"

const HaveDump = true

func dumpState(l klevdb.Log) string { return klevdb.VerifState(l) }
