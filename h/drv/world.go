// Package drv drives the real klevdb code and the reference model in
// lockstep: a World is a real log directory with its open handle plus the
// model; letters are self-contained textual operations.
package drv

import (
	"bytes"
	"context"
	"errors"
	"fmt"
	"os"
	"path/filepath"
	"sort"
	"strconv"
	"strings"
	"time"

	"github.com/klev-dev/klevdb"
	"github.com/klev-dev/klevdb/pkg/vshim/vrand"
	"github.com/klev-dev/klevdb/pkg/vshim/vtime"

	"verif/h/model"
)

// Cfg is the set of open options in force.
type Cfg struct {
	Keys, Times bool
	Rollover    int64
	Ver         int // NewSegmentsVersion 1|2
	Keep, Eager bool
	AutoSync    bool
}

func (c Cfg) String() string {
	return fmt.Sprintf("k=%v t=%v roll=%d v=%d keep=%v eager=%v as=%v", c.Keys, c.Times, c.Rollover, c.Ver, c.Keep, c.Eager, c.AutoSync)
}

func (c Cfg) Options() klevdb.Options {
	v := klevdb.V2
	if c.Ver == 1 {
		v = klevdb.V1
	}
	return klevdb.Options{
		KeyIndex: c.Keys, TimeIndex: c.Times, Rollover: c.Rollover, AutoSync: c.AutoSync,
		Version: klevdb.VersionOptions{NewSegmentsVersion: v, KeepRewriteVersion: c.Keep, EagerVersionMigrate: c.Eager},
	}
}

// Dis is one disagreement between the implementation and what a property
// demands; Props lists the properties it violates.
type Dis struct {
	Props []string
	Msg   string
	Fatal bool   // found by the per-step oracle: model and log may have diverged, do not expand
	Sig   string // canonical signature (engines that classify failures themselves)
}

func (d Dis) Has(p string) bool {
	for _, x := range d.Props {
		if x == p {
			return true
		}
	}
	return false
}

type World struct {
	Dir    string
	Cfg    Cfg
	L      klevdb.Log
	M      *model.Log
	Hist   []string
	Dis    []Dis
	KeySet []int // key indexes probed by the observation

	// Wrap, when set, wraps every handle after Open (crash engine: marks).
	OnOpen func(klevdb.Log) klevdb.Log
	// Tracer, when set, sees the API calls that matter to the crash engine.
	// End is called after the model has been updated; acked is the offset the
	// call acknowledged as durable (-1: none).
	Tracer interface {
		Begin(call string)
		End(call string, acked int64)
	}

	// AtClose, when set, is called whenever the directory has just been closed.
	AtClose func(*World)

	// Transcript of the last observation made with ObsFP.
	Transcript []string

	// backup state (C20)
	BkDir    string // directory of the last backup
	BkClean  bool   // no delete since the last backup into BkDir
	bkN      int
	bkDirs   []string
	bkDigest map[string]string // backup directory -> content digest when it was last written

	sinceOpen int
	inApply   int
	inObserve int
}

var Epoch = time.Date(2030, 1, 1, 0, 0, 0, 0, time.UTC)

// BaseT is the time of the first message of every history (microseconds).
const BaseT int64 = 1_000_000

// NewWorld creates a fresh directory under root and opens a log in it.
func NewWorld(root string, cfg Cfg) (*World, error) {
	return NewWorldWith(root, cfg, nil)
}

// NewWorldWith lets the caller prepare the world (tracer, journal) before
// the first Open.
func NewWorldWith(root string, cfg Cfg, prepare func(w *World)) (*World, error) {
	dir, err := os.MkdirTemp(root, "w")
	if err != nil {
		return nil, err
	}
	vrand.Reset()
	vtime.SetClock(Epoch)
	w := &World{Dir: dir, Cfg: cfg, M: model.New()}
	w.M.LastT = BaseT
	if prepare != nil {
		prepare(w)
	}
	w.begin("Open")
	err = w.open(cfg.Options())
	w.end("Open", -1)
	if err != nil {
		w.Cleanup()
		return nil, err
	}
	return w, nil
}

func (w *World) open(o klevdb.Options) error {
	l, err := klevdb.Open(w.Dir, o)
	if err != nil {
		return err
	}
	if w.OnOpen != nil {
		l = w.OnOpen(l)
	}
	w.L = l
	w.sinceOpen = len(w.Hist)
	return nil
}

func (w *World) Cleanup() {
	if w.L != nil {
		func() {
			defer func() { _ = recover() }()
			_ = w.L.Close()
		}()
		w.L = nil
	}
	_ = os.RemoveAll(w.Dir)
	for _, d := range w.bkDirs {
		_ = os.RemoveAll(d)
	}
}

func (w *World) begin(call string) {
	if w.Tracer != nil {
		w.Tracer.Begin(call)
	}
}

func (w *World) end(call string, acked int64) {
	if w.Tracer != nil {
		w.Tracer.End(call, acked)
	}
}

func (w *World) failf(props string, format string, a ...any) {
	w.Dis = append(w.Dis, Dis{Props: strings.Split(props, ","), Msg: fmt.Sprintf(format, a...)})
}

// fatalf records a disagreement after which model and log may have diverged
// (wrong offsets assigned, messages reported deleted that were not live ...):
// the state is reported but not expanded. Everything else is expanded, so
// that one property's disagreement does not hide what follows from it.
func (w *World) fatalf(props string, format string, a ...any) {
	w.Dis = append(w.Dis, Dis{Props: strings.Split(props, ","), Msg: fmt.Sprintf(format, a...), Fatal: true})
}

// Failf lets engines record a disagreement.
func (w *World) Failf(props string, format string, a ...any) { w.failf(props, format, a...) }

// ---------------------------------------------------------------- keys

// A1/A2, B1/B2, C1/C2 are genuine FNV-1a-64 collisions between distinct
// 8-byte keys (verified against index.KeyHash at start-up).
var (
	KeyA1 = []byte{0x30, 0xde, 0x95, 0xee, 0x30, 0xd5, 0xce, 0x4a}
	KeyA2 = []byte{0x21, 0x6c, 0xa7, 0x92, 0x9c, 0x97, 0x91, 0xca}
	KeyB1 = []byte{0x8e, 0x62, 0xb6, 0x8d, 0x7d, 0xdd, 0xbe, 0xab}
	KeyB2 = []byte{0x31, 0x62, 0xc9, 0x80, 0x05, 0xa6, 0x8d, 0x30}
	KeyC1 = []byte{0xbe, 0x53, 0x4c, 0xed, 0xa3, 0x77, 0x46, 0x8b}
	KeyC2 = []byte{0x37, 0x89, 0x2a, 0x1d, 0x1c, 0x14, 0x77, 0x71}
)

// Keys is the global key table; letters refer to keys by index.
var Keys = [][]byte{
	0:  []byte("a"),
	1:  []byte("b"),
	2:  nil,
	3:  {},
	4:  KeyA1,
	5:  KeyA2,
	6:  KeyB1,
	7:  KeyB2,
	8:  []byte("x"),
	9:  bytes.Repeat([]byte("k"), 40),
	10: bytes.Repeat([]byte("K"), 300),
	11: {0},
	12: []byte("absent"),
	13: KeyC1,
	14: KeyC2,
}

// ---------------------------------------------------------------- letters

func ints(s string) []int64 {
	if s == "" {
		return nil
	}
	var out []int64
	for _, p := range strings.Split(s, ",") {
		n, err := strconv.ParseInt(p, 10, 64)
		if err != nil {
			panic("bad letter argument " + s)
		}
		out = append(out, n)
	}
	return out
}

func JoinInts(v []int64) string {
	s := make([]string, len(v))
	for i, x := range v {
		s[i] = strconv.FormatInt(x, 10)
	}
	return strings.Join(s, ",")
}

func set(v []int64) map[int64]struct{} {
	m := map[int64]struct{}{}
	for _, x := range v {
		m[x] = struct{}{}
	}
	return m
}

func toModel(m klevdb.Message) model.Msg {
	return model.Msg{Off: m.Offset, T: m.Time.UnixMicro(), Key: m.Key, Val: m.Value}
}

func toModels(ms []klevdb.Message) []model.Msg {
	out := make([]model.Msg, len(ms))
	for i, m := range ms {
		out[i] = toModel(m)
	}
	return out
}

// safely runs f and converts a panic into an error string.
func safely(f func()) (p string) {
	defer func() {
		if r := recover(); r != nil {
			p = fmt.Sprint(r)
		}
	}()
	f()
	return ""
}

// Apply executes one letter on the real log and the model, checking the
// return values. It reports whether the letter could be executed at all
// (false: harness-level failure such as an Open error; the world is then
// unusable and the failure has been recorded as a disagreement).
func (w *World) Apply(letter string) bool {
	w.Hist = append(w.Hist, letter)
	kind, arg, _ := strings.Cut(letter, ":")
	ok := true
	w.inApply++
	defer func() { w.inApply-- }()
	if p := safely(func() { ok = w.apply(kind, arg) }); p != "" {
		w.failf(panicProps(kind), "panic in %s: %s", letter, p)
		return false
	}
	return ok
}

func panicProps(kind string) string {
	switch kind {
	case "P":
		return "C01,C02"
	case "D", "DM", "DMO":
		return "C12,C01"
	default:
		return "C01"
	}
}

func (w *World) apply(kind, arg string) bool {
	switch kind {
	case "P":
		return w.publish(arg)
	case "D":
		return w.delete(ints(arg))
	case "DD":
		// delete twice in a row: the second call must delete nothing
		if !w.delete(ints(arg)) {
			return false
		}
		del, size, err := w.L.Delete(set(ints(arg)))
		if len(del) != 0 || size != 0 {
			w.fatalf("C12", "deleting %v again deleted %d messages (size %d, err %v)", ints(arg), len(del), size, err)
		}
		return true
	case "DM":
		return w.deleteMulti(ints(arg), false)
	case "DMO":
		return w.deleteMulti(ints(arg), true)
	case "R":
		return w.reopen(arg)
	case "RX":
		return w.reopenRemovingIndexes(arg)
	case "G":
		d := time.Duration(0)
		if arg == "1h" {
			d = time.Hour
		}
		if err := w.L.GC(d); err != nil {
			w.failf("C01", "GC(%s): %v", arg, err)
		}
		return true
	case "T":
		vtime.Tick(2 * time.Hour)
		return true
	case "S":
		w.begin("Sync")
		n, err := w.L.Sync()
		if err != nil || n != w.M.Next {
			w.failf("C02", "Sync() = (%d, %v), want (%d, nil)", n, err, w.M.Next)
			w.end("Sync", -1)
		} else {
			w.end("Sync", n)
		}
		return true
	case "L":
		// load: read through everything so that lazily loaded state is resident
		off := klevdb.OffsetOldest
		for i := 0; i < 64; i++ {
			next, msgs, err := w.L.Consume(off, 40)
			if err != nil || (len(msgs) == 0 && next == off) {
				break
			}
			off = next
		}
		if w.Cfg.Keys {
			_, _ = w.L.GetByKey(Keys[0])
		}
		if w.Cfg.Times {
			_, _ = w.L.GetByTime(time.UnixMicro(BaseT))
		}
		return true
	default:
		if f, ok := extraLetters[kind]; ok {
			return f(w, arg)
		}
		panic("unknown letter " + kind)
	}
}

var extraLetters = map[string]func(w *World, arg string) bool{}

// RegisterLetter lets engines add letters of their own.
func RegisterLetter(kind string, f func(w *World, arg string) bool) { extraLetters[kind] = f }

// publish: arg is a comma separated list of key/dt/val specs.
func (w *World) publish(arg string) bool {
	var specs []string
	if arg != "" {
		specs = strings.Split(arg, ",")
	}
	msgs := make([]klevdb.Message, len(specs))
	want := make([]model.Msg, len(specs))
	t := w.M.LastT
	huge := false
	for i, sp := range specs {
		f := strings.Split(sp, "/")
		if len(f) != 3 {
			panic("bad publish spec " + sp)
		}
		ki, _ := strconv.Atoi(f[0])
		key := Keys[ki]
		off := w.M.Next + int64(i)
		var tm time.Time
		switch {
		case f[1] == "z":
			t = vtime.Now().UnixMicro()
			// tm stays zero: klevdb fills it from the clock
		case strings.HasPrefix(f[1], "a"):
			t, _ = strconv.ParseInt(f[1][1:], 10, 64)
			tm = time.UnixMicro(t).UTC()
		default:
			dt, _ := strconv.ParseInt(f[1], 10, 64)
			t += dt
			tm = time.UnixMicro(t).UTC()
		}
		var val []byte
		switch {
		case f[2] == "u":
			val = []byte("v" + strconv.FormatInt(off, 10))
		case f[2] == "n":
			val = nil
		case f[2] == "e":
			val = []byte{}
		case strings.HasPrefix(f[2], "L"):
			n, _ := strconv.Atoi(f[2][1:])
			val = make([]byte, n)
			for j := range val {
				val[j] = byte(int(off)*31 + j*7 + 1)
			}
		case f[2] == "M":
			// exactly the largest body the format accepts (key + value = 64 MiB): whether the batch is taken or
			// refused, it must be taken or refused as a whole
			val = hugeValue()[:64<<20-len(key)]
			huge = true
		case f[2] == "H":
			// one byte above the 64 MiB body limit: the whole batch is expected to be rejected
			val = hugeValue()
			huge = true
		default:
			panic("bad value spec " + f[2])
		}
		msgs[i] = klevdb.Message{Offset: 777 + int64(i), Time: tm, Key: key, Value: val}
		want[i] = model.Msg{Off: off, T: t, Key: key, Val: val}
	}
	single := w.singleVersion()
	segsBefore, sizeBefore := DirSizes(w.Dir)
	var wantGrowth int64
	for i := range msgs {
		wantGrowth += w.L.Size(klevdb.Message{Key: msgs[i].Key, Value: msgs[i].Value})
	}
	w.begin("Publish")
	next, err := w.L.Publish(msgs)
	if err != nil && huge {
		// a rejected batch publishes nothing: the model stays as it is and everything
		// observed from here on (also after reopen) must agree with it
		w.end("Publish", -1)
		return true
	}
	if err != nil {
		w.end("Publish", -1)
		w.failf("C01,C02", "Publish(%d msgs) failed: %v", len(msgs), err)
		return false
	}
	defer func() {
		if w.Cfg.AutoSync {
			w.end("Publish", next)
		} else {
			w.end("Publish", -1)
		}
	}()
	if next != w.M.Next+int64(len(msgs)) {
		w.fatalf("C02", "Publish(%d msgs) returned %d, want %d", len(msgs), next, w.M.Next+int64(len(msgs)))
	}
	for i := range msgs {
		if msgs[i].Offset != want[i].Off {
			w.fatalf("C02", "Publish wrote back offset %d for message %d, want %d", msgs[i].Offset, i, want[i].Off)
		}
		if msgs[i].Time.UnixMicro() != want[i].T {
			w.failf("C01", "Publish left time %d in message %d, want %d", msgs[i].Time.UnixMicro(), i, want[i].T)
		}
	}
	w.M.Publish(want)
	if single && w.Tracer == nil {
		segsAfter, sizeAfter := DirSizes(w.Dir)
		if w.Cfg.Ver == 2 {
			wantGrowth += int64(segsAfter-segsBefore) * 16
		}
		if sizeAfter-sizeBefore != wantGrowth {
			w.failf("C13", "Publish(%d msgs) grew the segment files by %d bytes, Size() of the messages (plus file headers of %d new segments) is %d", len(msgs), sizeAfter-sizeBefore, segsAfter-segsBefore, wantGrowth)
		}
	}
	return true
}

var hugeBuf []byte

// hugeValue is a shared value one byte above the 64 MiB body limit.
func hugeValue() []byte {
	if hugeBuf == nil {
		hugeBuf = make([]byte, 64<<20+1)
	}
	return hugeBuf
}

// SegVersions maps each segment base offset to its format version (1|2),
// read straight from the file headers.
func SegVersions(dir string) (bases []int64, vers []int) {
	ents, _ := os.ReadDir(dir)
	for _, e := range ents {
		name := e.Name()
		if !strings.HasSuffix(name, ".log") {
			continue
		}
		base, err := strconv.ParseInt(strings.TrimSuffix(name, ".log"), 10, 64)
		if err != nil {
			continue
		}
		v := 1
		if data, err := os.ReadFile(filepath.Join(dir, name)); err == nil && len(data) >= 8 && bytes.Equal(data[:6], []byte{0xFF, 'k', 'l', 'e', 'v', 's'}) {
			v = int(data[6]) + 1
			if data[6] == 1 {
				v = 2
			}
		}
		bases = append(bases, base)
		vers = append(vers, v)
	}
	return
}

func versionOf(bases []int64, vers []int, off int64) int {
	v := 0
	for i, b := range bases {
		if b <= off {
			v = vers[i]
		}
	}
	return v
}

// StorageSize is the documented on-disk size of a message in a version plus
// its index item.
func (w *World) StorageSize(m model.Msg, ver int) int64 {
	sz := int64(len(m.Key) + len(m.Val))
	if ver == 1 {
		sz += 28
	} else {
		sz += 36
	}
	sz += 16
	if w.Cfg.Keys {
		sz += 8
	}
	if w.Cfg.Times {
		sz += 8
	}
	return sz
}

// checkDeleted validates the result of one Delete call against the model and
// applies it. prop is the property charged.
func (w *World) checkDeleted(what string, req map[int64]struct{}, deleted []model.Msg, size int64, bases []int64, vers []int) {
	rm := map[int64]bool{}
	var wantSize int64
	for _, d := range deleted {
		if _, ok := req[d.Off]; !ok {
			w.fatalf("C12", "%s reported offset %d which was not requested", what, d.Off)
		}
		i := w.M.Index(d.Off)
		if i < 0 {
			w.fatalf("C12", "%s reported offset %d which was not live", what, d.Off)
			continue
		}
		if !w.M.Live[i].Same(d) {
			w.fatalf("C12", "%s reported %v, live message was %v", what, d, w.M.Live[i])
		}
		if rm[d.Off] {
			w.fatalf("C12", "%s reported offset %d twice", what, d.Off)
		}
		rm[d.Off] = true
		wantSize += w.StorageSize(w.M.Live[i], versionOf(bases, vers, d.Off))
	}
	if size != wantSize {
		w.failf("C12", "%s reported size %d, storage size of the reported messages is %d", what, size, wantSize)
	}
	w.M.Remove(rm)
}

func (w *World) delete(offs []int64) bool {
	w.BkClean = false
	req := set(offs)
	bases, vers := SegVersions(w.Dir)
	w.begin("Delete")
	del, size, err := w.L.Delete(req)
	defer w.end("Delete", -1)
	what := fmt.Sprintf("Delete(%v)", offs)
	hasRel := false
	minOff := int64(1 << 62)
	for _, o := range offs {
		if o < 0 {
			hasRel = true
		}
		if o < minOff {
			minOff = o
		}
	}
	switch {
	case len(offs) == 0:
		if err != nil || len(del) != 0 || size != 0 {
			w.failf("C12", "Delete(empty) = (%d msgs, %d, %v), want no-op", len(del), size, err)
		}
	case hasRel:
		if !errors.Is(err, klevdb.ErrInvalidOffset) || len(del) != 0 {
			w.failf("C12", "%s with a relative offset = (%d msgs, %v), want ErrInvalidOffset", what, len(del), err)
		}
	case err != nil:
		below := len(w.M.Live) == 0 || minOff < w.M.Live[0].Off
		if !(errors.Is(err, klevdb.ErrNotFound) && below && len(del) == 0) {
			w.failf("C12", "%s failed: %v", what, err)
		}
	}
	w.checkDeleted(what, req, toModels(del), size, bases, vers)
	return true
}

// NoBackoff is the DeleteMulti backoff used everywhere: no waiting.
func NoBackoff(context.Context) error { return nil }

func (w *World) deleteMulti(offs []int64, offsetsOnly bool) bool {
	w.BkClean = false
	req := set(offs)
	allLive := len(offs) > 0
	for _, o := range offs {
		if w.M.Index(o) < 0 {
			allLive = false
		}
	}
	// DeleteMulti spans several Delete passes; sizes are per pass, so wrap
	// the log to validate every pass separately.
	pl := &passLog{Log: w.L, w: w}
	var got map[int64]struct{}
	var size int64
	var err error
	what := fmt.Sprintf("DeleteMulti(%v)", offs)
	if offsetsOnly {
		what = fmt.Sprintf("DeleteMultiOffsets(%v)", offs)
		got, size, err = klevdb.DeleteMultiOffsets(context.Background(), pl, req, NoBackoff)
	} else {
		var msgs []klevdb.Message
		msgs, size, err = klevdb.DeleteMulti(context.Background(), pl, req, NoBackoff)
		got = map[int64]struct{}{}
		for _, m := range msgs {
			got[m.Offset] = struct{}{}
		}
		if len(got) != len(msgs) {
			w.failf("C12", "%s returned duplicate messages", what)
		}
	}
	if err != nil {
		// as for a single Delete: a request whose lowest offset lies below the oldest live message may be
		// refused with ErrNotFound (what the tree answers for an offset that was trimmed away)
		minOff := int64(1 << 62)
		for _, o := range offs {
			if o < minOff {
				minOff = o
			}
		}
		below := len(w.M.Live) == 0 || minOff < w.M.Live[0].Off
		if !(errors.Is(err, klevdb.ErrNotFound) && below) {
			w.failf("C12", "%s failed: %v", what, err)
		}
	}
	if size != pl.size {
		w.failf("C12", "%s returned size %d, sum of its passes is %d", what, size, pl.size)
	}
	if len(got) != len(pl.offs) {
		w.failf("C12", "%s returned %d offsets, its passes deleted %d", what, len(got), len(pl.offs))
	}
	for o := range pl.offs {
		if _, ok := got[o]; !ok {
			w.failf("C12", "%s did not report offset %d which a pass deleted", what, o)
		}
	}
	if allLive && len(got) != len(offs) {
		w.failf("C12", "%s over live offsets removed only %v", what, keys(got))
	}
	return true
}

func keys(m map[int64]struct{}) []int64 {
	var out []int64
	for k := range m {
		out = append(out, k)
	}
	sort.Slice(out, func(i, j int) bool { return out[i] < out[j] })
	return out
}

// passLog validates every Delete pass issued by a multi-pass helper.
type passLog struct {
	klevdb.Log
	w    *World
	size int64
	offs map[int64]bool
}

func (p *passLog) Delete(req map[int64]struct{}) ([]klevdb.Message, int64, error) {
	bases, vers := SegVersions(p.w.Dir)
	p.w.begin("Delete")
	defer p.w.end("Delete", -1)
	del, size, err := p.Log.Delete(req)
	if err == nil {
		p.w.checkDeleted(fmt.Sprintf("Delete pass(%v)", keys(req)), req, toModels(del), size, bases, vers)
		p.size += size
		if p.offs == nil {
			p.offs = map[int64]bool{}
		}
		for _, d := range del {
			p.offs[d.Offset] = true
		}
	}
	return del, size, err
}

// reopen: Close + Open with options re-drawn. arg is a comma list of flags.
func (w *World) reopen(arg string) bool {
	if w.L != nil {
		w.begin("Close")
		err := w.L.Close()
		if err != nil {
			w.failf("C01", "Close failed: %v", err)
			w.end("Close", -1)
		} else {
			w.end("Close", w.M.Next)
		}
		w.L = nil
	}
	if w.AtClose != nil {
		w.AtClose(w)
	}
	o, roRound := w.parseOpenFlags(arg)
	if roRound {
		ro := o
		ro.Readonly = true
		l, err := klevdb.Open(w.Dir, ro)
		if err != nil {
			w.failf("C19,C01", "Open(readonly) failed: %v", err)
			return false
		}
		save := w.L
		w.L = l
		w.Observe(ObsAll &^ ObsTrim)
		w.L = save
		if err := l.Close(); err != nil {
			w.failf("C19", "Close(readonly) failed: %v", err)
		}
	}
	w.begin("Open")
	err := w.open(o)
	w.end("Open", -1)
	if err != nil {
		w.failf("C01", "Open(%s) failed: %v", arg, err)
		return false
	}
	return true
}

func (w *World) parseOpenFlags(arg string) (klevdb.Options, bool) {
	ro := false
	chk, rec := false, false
	if arg != "" {
		for _, f := range strings.Split(arg, ",") {
			switch {
			case f == "rec":
				rec = true
			case f == "chk":
				chk = true
			case f == "ro":
				ro = true
			case f == "v1":
				w.Cfg.Ver = 1
			case f == "v2":
				w.Cfg.Ver = 2
			case f == "keep":
				w.Cfg.Keep = true
			case f == "nokeep":
				w.Cfg.Keep = false
			case f == "eager":
				w.Cfg.Eager = true
			case f == "noeager":
				w.Cfg.Eager = false
			case f == "as":
				w.Cfg.AutoSync = true
			case f == "noas":
				w.Cfg.AutoSync = false
			case strings.HasPrefix(f, "roll="):
				w.Cfg.Rollover, _ = strconv.ParseInt(f[5:], 10, 64)
			default:
				panic("bad open flag " + f)
			}
		}
	}
	o := w.Cfg.Options()
	o.Check, o.Recover = chk, rec
	return o, ro
}

func (w *World) reopenRemovingIndexes(arg string) bool {
	if w.L != nil {
		if err := w.L.Close(); err != nil {
			w.failf("C01", "Close failed: %v", err)
		}
		w.L = nil
	}
	if w.AtClose != nil {
		w.AtClose(w)
	}
	idx, _ := filepath.Glob(filepath.Join(w.Dir, "*.index"))
	sort.Strings(idx)
	switch {
	case arg == "all":
		for _, p := range idx {
			_ = os.Remove(p)
		}
	case arg == "last":
		if len(idx) > 0 {
			_ = os.Remove(idx[len(idx)-1])
		}
	case arg == "first":
		if len(idx) > 0 {
			_ = os.Remove(idx[0])
		}
	default:
		i, _ := strconv.Atoi(arg)
		if i < len(idx) {
			_ = os.Remove(idx[i])
		}
	}
	if err := w.open(w.Cfg.Options()); err != nil {
		w.failf("C11,C01", "Open after removing index files (%s) failed: %v", arg, err)
		return false
	}
	return true
}
