package drv

import (
	"errors"
	"fmt"
	"hash"
	"hash/fnv"
	"os"
	"path/filepath"
	"strings"
	"time"

	"github.com/klev-dev/klevdb"

	"verif/h/model"
)

type ObsMask uint32

const (
	ObsWalk    ObsMask = 1 << iota // C01 cursor walks
	ObsNext                        // C02 NextOffset
	ObsConsume                     // C03 Consume at every offset / count
	ObsGet                         // C04 Get taxonomy
	ObsKey                         // C09 key lookups
	ObsTime                        // C10 time lookups
	ObsStat                        // C13 Stat
	ObsTrim                        // C15 Find* helpers (read only)
	ObsFP                          // compute a fingerprint of everything seen
	ObsWide                        // thorough tier: maxCount 1..40

	ObsAll = ObsWalk | ObsNext | ObsConsume | ObsGet | ObsKey | ObsTime | ObsStat | ObsTrim
)

var walkCounts = []int64{1, 2, 3, 40}

type obs struct {
	w     *World
	fp    hash.Hash64
	lines []string
}

func (o *obs) rec(format string, a ...any) {
	if o.fp != nil {
		line := fmt.Sprintf(format, a...)
		o.fp.Write([]byte(line))
		o.fp.Write([]byte{'\n'})
		o.lines = append(o.lines, line)
	}
}

// DiffTranscripts returns the first line in which two observation
// transcripts differ.
func DiffTranscripts(a, b []string) string {
	for i := 0; i < len(a) || i < len(b); i++ {
		var x, y string
		if i < len(a) {
			x = a[i]
		}
		if i < len(b) {
			y = b[i]
		}
		if x != y {
			return fmt.Sprintf("%q vs %q", x, y)
		}
	}
	return ""
}

func errClass(err error) string {
	switch {
	case err == nil:
		return "ok"
	case errors.Is(err, klevdb.ErrNotFound):
		return "notfound"
	case errors.Is(err, klevdb.ErrInvalidOffset):
		return "invalid"
	case errors.Is(err, klevdb.ErrNoIndex):
		return "noindex"
	case errors.Is(err, klevdb.ErrReadonly):
		return "readonly"
	default:
		return "err"
	}
}

// Observe drives the public read API of the open handle against the model.
// It returns a fingerprint of everything it saw when ObsFP is set.
func (w *World) Observe(mask ObsMask) uint64 {
	o := &obs{w: w}
	w.inObserve++
	defer func() { w.inObserve-- }()
	if mask&ObsFP != 0 {
		o.fp = fnv.New64a()
	}
	steps := []struct {
		m    ObsMask
		f    func(ObsMask)
		prop string
	}{
		{ObsNext, o.next, "C02"},
		{ObsWalk, o.walk, "C01"},
		{ObsConsume, o.consume, "C03"},
		{ObsGet, o.get, "C04"},
		{ObsKey, o.key, "C09"},
		{ObsTime, o.time, "C10"},
		{ObsStat, o.stat, "C13"},
		{ObsTrim, o.trim, "C15"},
	}
	if mask&ObsStat != 0 {
		// a Stat before anything has been read (segments not loaded, index files possibly
		// not rebuilt yet); the Stat judged below comes after the reads
		if p := safely(func() {
			if _, err := w.L.Stat(); err != nil {
				w.failf("C13", "Stat before any read failed: %v", err)
			}
		}); p != "" {
			w.failf("C13", "panic in Stat: %s", p)
		}
	}
	for _, s := range steps {
		if mask&s.m == 0 {
			continue
		}
		if p := safely(func() { s.f(mask) }); p != "" {
			w.failf(s.prop, "panic during observation (%s): %s", s.prop, p)
		}
	}
	if o.fp != nil {
		w.Transcript = o.lines
		return o.fp.Sum64()
	}
	return 0
}

func (o *obs) next(ObsMask) {
	w := o.w
	n, err := w.L.NextOffset()
	o.rec("next %d %s", n, errClass(err))
	if err != nil || n != w.M.Next {
		w.failf("C02", "NextOffset() = (%d, %v), want %d", n, err, w.M.Next)
	}
}

func (o *obs) walk(mask ObsMask) {
	w := o.w
	counts := walkCounts
	for _, mc := range counts {
		var got []model.Msg
		off := klevdb.OffsetOldest
		bad := false
		for iter := 0; ; iter++ {
			next, msgs, err := w.L.Consume(off, mc)
			if err != nil {
				w.failf("C01,C03", "cursor walk(max=%d): Consume(%d) failed: %v", mc, off, err)
				bad = true
				break
			}
			got = append(got, toModels(msgs)...)
			if len(msgs) == 0 && next == w.M.Next {
				break
			}
			if (off >= 0 && next <= off) || iter > 200 {
				w.failf("C01,C03", "cursor walk(max=%d): Consume(%d) = (%d, %d msgs) makes no progress before NextOffset %d", mc, off, next, len(msgs), w.M.Next)
				bad = true
				break
			}
			if next > w.M.Next {
				w.failf("C01,C03", "cursor walk(max=%d): Consume(%d) returned next %d beyond NextOffset %d", mc, off, next, w.M.Next)
				bad = true
				break
			}
			off = next
		}
		if bad {
			continue
		}
		o.rec("walk %d %v", mc, got)
		// an offset that shows up twice, or out of order, was assigned twice
		for i := 1; i < len(got); i++ {
			if got[i].Off <= got[i-1].Off {
				w.failf("C01,C02,C03", "cursor walk(max=%d) returns offset %d after offset %d: %v", mc, got[i].Off, got[i-1].Off, offsOf(got))
				break
			}
		}
		if len(got) != len(w.M.Live) {
			w.failf("C01", "cursor walk(max=%d) saw %d messages %v, want %d %v", mc, len(got), offsOf(got), len(w.M.Live), offsOf(w.M.Live))
			continue
		}
		for i := range got {
			if !got[i].Same(w.M.Live[i]) {
				w.failf("C01", "cursor walk(max=%d) message %d = %v, want %v", mc, i, got[i], w.M.Live[i])
				break
			}
		}
	}
}

func offsOf(ms []model.Msg) []int64 {
	out := make([]int64, len(ms))
	for i, m := range ms {
		out[i] = m.Off
	}
	return out
}

func (o *obs) consume(mask ObsMask) {
	w := o.w
	counts := walkCounts
	if mask&ObsWide != 0 {
		counts = nil
		for c := int64(1); c <= 40; c++ {
			counts = append(counts, c)
		}
	}
	for off := int64(-5); off <= w.M.Next+2; off++ {
		for _, mc := range counts {
			next, msgs, err := w.L.Consume(off, mc)
			o.rec("consume %d %d -> %d %v %s", off, mc, next, toModels(msgs), errClass(err))
			switch {
			case off > w.M.Next:
				if !errors.Is(err, klevdb.ErrInvalidOffset) {
					w.failf("C03", "Consume(%d,%d) beyond NextOffset %d = (%d, %d msgs, %v), want ErrInvalidOffset", off, mc, w.M.Next, next, len(msgs), err)
				}
			case err != nil:
				w.failf("C03", "Consume(%d,%d) failed: %v (NextOffset %d)", off, mc, err, w.M.Next)
			default:
				if s := w.M.CheckConsume(off, mc, next, toModels(msgs)); s != "" {
					w.failf("C03", "%s [live %v next %d]", s, offsOf(w.M.Live), w.M.Next)
				}
			}
		}
	}
}

func (o *obs) get(ObsMask) {
	w := o.w
	for off := int64(0); off <= w.M.Next+2; off++ {
		msg, err := w.L.Get(off)
		o.rec("get %d -> %v %s", off, toModel(msg), errClass(err))
		i := w.M.Index(off)
		switch {
		case i >= 0:
			if err != nil {
				w.failf("C04", "Get(%d) of a live message failed: %v", off, err)
			} else if !toModel(msg).Same(w.M.Live[i]) {
				w.failf("C04", "Get(%d) = %v, want %v", off, toModel(msg), w.M.Live[i])
			}
		case off < w.M.Next:
			if !errors.Is(err, klevdb.ErrNotFound) {
				w.failf("C04", "Get(%d) of a deleted message = (%v, %v), want ErrNotFound", off, toModel(msg), err)
			}
		default:
			if !errors.Is(err, klevdb.ErrInvalidOffset) {
				w.failf("C04", "Get(%d) of an unassigned offset (NextOffset %d) = (%v, %v), want ErrInvalidOffset", off, w.M.Next, toModel(msg), err)
			}
		}
	}
	for _, rel := range []int64{klevdb.OffsetOldest, klevdb.OffsetNewest} {
		msg, err := w.L.Get(rel)
		o.rec("get %d -> %v %s", rel, toModel(msg), errClass(err))
		if len(w.M.Live) == 0 {
			if !errors.Is(err, klevdb.ErrInvalidOffset) {
				w.failf("C04", "Get(%d) on an empty log = (%v, %v), want ErrInvalidOffset", rel, toModel(msg), err)
			}
			continue
		}
		want := w.M.Live[0]
		if rel == klevdb.OffsetNewest {
			want = w.M.Live[len(w.M.Live)-1]
		}
		if err != nil {
			w.failf("C04", "Get(%s) on a log with live messages %v failed: %v", relName(rel), offsOf(w.M.Live), err)
		} else if !toModel(msg).Same(want) {
			w.failf("C04", "Get(%s) = %v, want %v", relName(rel), toModel(msg), want)
		}
	}
}

func relName(o int64) string {
	if o == klevdb.OffsetOldest {
		return "OffsetOldest"
	}
	return "OffsetNewest"
}

func (o *obs) key(ObsMask) {
	w := o.w
	ks := append([]int(nil), w.KeySet...)
	if len(ks) == 0 {
		ks = []int{0, 2}
	}
	ks = append(ks, 12)
	for _, ki := range ks {
		key := Keys[ki]
		msg, err := w.L.GetByKey(key)
		off, oerr := w.L.OffsetByKey(key)
		o.rec("getbykey %d -> %v %s %d %s", ki, toModel(msg), errClass(err), off, errClass(oerr))
		if !w.Cfg.Keys {
			if !errors.Is(err, klevdb.ErrNoIndex) || !errors.Is(oerr, klevdb.ErrNoIndex) {
				w.failf("C09", "GetByKey/OffsetByKey without key index = (%v, %v), want ErrNoIndex", err, oerr)
			}
			n, ms, cerr := w.L.ConsumeByKey(key, klevdb.OffsetOldest, 1)
			if !errors.Is(cerr, klevdb.ErrNoIndex) {
				w.failf("C09", "ConsumeByKey without key index = (%d, %d msgs, %v), want ErrNoIndex", n, len(ms), cerr)
			}
			continue
		}
		want, ok := w.M.LastByKey(key)
		switch {
		case ok && (err != nil || !toModel(msg).Same(want)):
			w.failf("C09", "GetByKey(%q) = (%v, %v), want %v", key, toModel(msg), err, want)
		case !ok && !errors.Is(err, klevdb.ErrNotFound):
			w.failf("C09", "GetByKey(%q) = (%v, %v), want ErrNotFound", key, toModel(msg), err)
		}
		switch {
		case ok && (oerr != nil || off != want.Off):
			w.failf("C09", "OffsetByKey(%q) = (%d, %v), want %d", key, off, oerr, want.Off)
		case !ok && !errors.Is(oerr, klevdb.ErrNotFound):
			w.failf("C09", "OffsetByKey(%q) = (%d, %v), want ErrNotFound", key, off, oerr)
		}
		// the relative cursor "newest": caught up, nothing to return (like Consume)
		for _, mc := range []int64{1, 40} {
			next, msgs, err := w.L.ConsumeByKey(key, klevdb.OffsetNewest, mc)
			o.rec("keynewest %d %d -> %d %d %s", ki, mc, next, len(msgs), errClass(err))
			if err != nil || len(msgs) != 0 || next != w.M.Next {
				w.failf("C09", "ConsumeByKey(%q, OffsetNewest, %d) = (%d, %d msgs, %v), want (%d, none)", key, mc, next, len(msgs), err, w.M.Next)
			}
		}
		// cursor from OffsetOldest
		for _, mc := range []int64{1, 40} {
			var got []model.Msg
			cur := klevdb.OffsetOldest
			bad := false
			for iter := 0; ; iter++ {
				next, msgs, err := w.L.ConsumeByKey(key, cur, mc)
				if err != nil {
					w.failf("C09", "ConsumeByKey(%q,%d,%d) failed: %v", key, cur, mc, err)
					bad = true
					break
				}
				got = append(got, toModels(msgs)...)
				if len(msgs) == 0 && next == w.M.Next {
					break
				}
				if (cur >= 0 && next <= cur) || next > w.M.Next || iter > 200 {
					w.failf("C09", "ConsumeByKey(%q,%d,%d) = (%d, %d msgs): cursor does not end at NextOffset %d", key, cur, mc, next, len(msgs), w.M.Next)
					bad = true
					break
				}
				cur = next
			}
			if bad {
				continue
			}
			var wantAll []model.Msg
			for _, m := range w.M.Live {
				if string(m.Key) == string(key) {
					wantAll = append(wantAll, m)
				}
			}
			o.rec("keywalk %d %d %v", ki, mc, got)
			same := len(got) == len(wantAll)
			for i := 0; same && i < len(got); i++ {
				same = got[i].Same(wantAll[i])
			}
			if !same {
				w.failf("C09", "ConsumeByKey(%q) cursor(max=%d) returned %v, want %v", key, mc, got, wantAll)
			}
		}
		// every start offset
		for start := int64(0); start <= w.M.Next; start++ {
			for _, mc := range []int64{1, 40} {
				next, msgs, err := w.L.ConsumeByKey(key, start, mc)
				o.rec("consumebykey %d %d %d -> %d %v %s", ki, start, mc, next, toModels(msgs), errClass(err))
				if err != nil {
					w.failf("C09", "ConsumeByKey(%q,%d,%d) failed: %v", key, start, mc, err)
					continue
				}
				if s := w.M.CheckConsumeByKey(key, start, mc, next, toModels(msgs)); s != "" {
					w.failf("C09", "%s [live %v]", s, w.M.Live)
				}
			}
		}
	}
}

// TimeQueries returns the query times for the current model: every
// microsecond from min-2 to max+2 when that range is small, otherwise the
// neighbourhood of every message time.
func (w *World) TimeQueries() []int64 {
	if len(w.M.Live) == 0 {
		return []int64{BaseT - 1, BaseT, BaseT + 1}
	}
	lo, hi := w.M.Live[0].T, w.M.Live[0].T
	for _, m := range w.M.Live {
		if m.T < lo {
			lo = m.T
		}
		if m.T > hi {
			hi = m.T
		}
	}
	var out []int64
	if hi-lo <= 64 {
		for t := lo - 2; t <= hi+2; t++ {
			out = append(out, t)
		}
		return out
	}
	seen := map[int64]bool{}
	for _, m := range w.M.Live {
		for d := int64(-1); d <= 1; d++ {
			if !seen[m.T+d] {
				seen[m.T+d] = true
				out = append(out, m.T+d)
			}
		}
	}
	out = append(out, lo-2, hi+2)
	return out
}

func (o *obs) time(ObsMask) {
	w := o.w
	if !w.Cfg.Times {
		msg, err := w.L.GetByTime(time.UnixMicro(BaseT))
		_, _, oerr := w.L.OffsetByTime(time.UnixMicro(BaseT))
		o.rec("getbytime -> %s", errClass(err))
		if !errors.Is(err, klevdb.ErrNoIndex) || !errors.Is(oerr, klevdb.ErrNoIndex) {
			w.failf("C10", "GetByTime/OffsetByTime without time index = (%v, %v / %v), want ErrNoIndex", toModel(msg), err, oerr)
		}
		return
	}
	if !w.M.Monotone {
		return
	}
	// Known finding (DESIGN.md 5, D12): index timestamps are max(time, 0), so
	// lookups go wrong once a live message is older than the Unix epoch. The
	// disagreement is tagged by that input class.
	preEpoch := false
	for _, m := range w.M.Live {
		if m.T < 0 {
			preEpoch = true
		}
	}
	for _, q := range w.TimeQueries() {
		qt := time.UnixMicro(q)
		msg, err := w.L.GetByTime(qt)
		off, ot, oerr := w.L.OffsetByTime(qt)
		o.rec("getbytime %d -> %v %s %d %s", q, toModel(msg), errClass(err), off, errClass(oerr))
		want, ok := w.M.FirstByTime(q)
		// the finding is identified by what it predicts: the answer is the first live message
		// whose time clamped at the epoch is not before the query; anything else is not D12
		tag, otag := "", ""
		if preEpoch {
			var pred *model.Msg
			for i := range w.M.Live {
				if t := w.M.Live[i].T; t >= q || (t < 0 && q <= 0) {
					pred = &w.M.Live[i]
					break
				}
			}
			if (pred != nil && err == nil && toModel(msg).Same(*pred)) || (pred == nil && errors.Is(err, klevdb.ErrNotFound)) {
				tag = "pre-epoch times: "
			}
			if (pred != nil && oerr == nil && off == pred.Off && ot.UnixMicro() == pred.T) || (pred == nil && errors.Is(oerr, klevdb.ErrNotFound)) {
				otag = "pre-epoch times: "
			}
		}
		switch {
		case ok:
			if err != nil || !toModel(msg).Same(want) {
				w.failf("C10", tag+"GetByTime(%d) = (%v, %v), want %v [live %v]", q, toModel(msg), err, want, w.M.Live)
			}
			if oerr != nil || off != want.Off || ot.UnixMicro() != want.T {
				w.failf("C10", otag+"OffsetByTime(%d) = (%d, %d, %v), want (%d, %d)", q, off, ot.UnixMicro(), oerr, want.Off, want.T)
			}
		case len(w.M.Live) == 0:
			if !(errors.Is(err, klevdb.ErrNotFound) || errors.Is(err, klevdb.ErrInvalidOffset)) {
				w.failf("C10", tag+"GetByTime(%d) on a log without live messages = (%v, %v), want ErrNotFound or ErrInvalidOffset", q, toModel(msg), err)
			}
			if !(errors.Is(oerr, klevdb.ErrNotFound) || errors.Is(oerr, klevdb.ErrInvalidOffset)) {
				w.failf("C10", otag+"OffsetByTime(%d) on a log without live messages = %v, want ErrNotFound or ErrInvalidOffset", q, oerr)
			}
		default:
			if !errors.Is(err, klevdb.ErrNotFound) {
				w.failf("C10", tag+"GetByTime(%d) after all messages = (%v, %v), want ErrNotFound [live %v]", q, toModel(msg), err, w.M.Live)
			}
			if !errors.Is(oerr, klevdb.ErrNotFound) {
				w.failf("C10", otag+"OffsetByTime(%d) after all messages = %v, want ErrNotFound", q, oerr)
			}
		}
	}
}

// DirSizes sums the sizes of segment files as the file system reports them.
func DirSizes(dir string) (segments int, size int64) {
	ents, _ := os.ReadDir(dir)
	for _, e := range ents {
		n := e.Name()
		if strings.HasSuffix(n, ".log") || strings.HasSuffix(n, ".index") {
			if st, err := os.Stat(filepath.Join(dir, n)); err == nil {
				size += st.Size()
			}
			if strings.HasSuffix(n, ".log") {
				segments++
			}
		}
	}
	return
}

func (o *obs) stat(ObsMask) {
	w := o.w
	st, err := w.L.Stat()
	o.rec("stat %+v %s", st, errClass(err))
	if err != nil {
		w.failf("C13", "Stat failed: %v", err)
		return
	}
	segs, size := DirSizes(w.Dir)
	if st.Messages != len(w.M.Live) {
		w.failf("C13", "Stat.Messages = %d, want %d live", st.Messages, len(w.M.Live))
	}
	if st.Size != size {
		w.failf("C13", "Stat.Size = %d, files total %d", st.Size, size)
	}
	if st.Segments != segs && !(segs == 0 && st.Segments <= 1) {
		w.failf("C13", "Stat.Segments = %d, directory has %d log files", st.Segments, segs)
	}
	if pst, perr := klevdb.Stat(w.Dir, w.Cfg.Options()); perr != nil || pst != st {
		w.failf("C13", "package-level Stat = (%+v, %v), handle Stat = %+v", pst, perr, st)
	}
}
