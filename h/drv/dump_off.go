//go:build !verif

package drv

import "github.com/klev-dev/klevdb"

const HaveDump = false

func dumpState(l klevdb.Log) string { return "" }
