package drv

import (
	"bytes"
	"context"
	"fmt"
	"os"
	"path/filepath"
	"sort"
	"strconv"
	"strings"
	"time"

	"github.com/klev-dev/klevdb"
	"github.com/klev-dev/klevdb/pkg/vshim/vtime"

	"verif/h/model"
	"verif/h/refcodec"
)

// ---- C16: compaction ----------------------------------------------------

// Latest maps every key to the value of its last live message; a value-less
// message means "absent" (the key is left out).
func Latest(m *model.Log) map[string]string {
	out := map[string]string{}
	for _, x := range m.Live {
		if len(x.Val) == 0 {
			delete(out, string(x.Key))
		} else {
			out[string(x.Key)] = string(x.Val)
		}
	}
	return out
}

func sameLatest(a, b map[string]string) bool {
	if len(a) != len(b) {
		return false
	}
	for k, v := range a {
		if bv, ok := b[k]; !ok || bv != v {
			return false
		}
	}
	return true
}

func (w *World) checkUpdatesSet(t int64, offs map[int64]struct{}, what string) {
	for o := range offs {
		i := w.M.Index(o)
		if i < 0 {
			w.failf("C16", "%s selected offset %d which is not live", what, o)
			continue
		}
		m := w.M.Live[i]
		if m.T > t {
			w.failf("C16", "%s selected %v which is newer than the cut-off %d", what, m, t)
		}
		later := false
		for _, x := range w.M.Live[i+1:] {
			if bytes.Equal(x.Key, m.Key) {
				later = true
				break
			}
		}
		if !later {
			w.failf("C16", "%s selected %v which has no later message with the same key [live %v]", what, m, w.M.Live)
		}
	}
}

func (w *World) checkDeletesSet(t int64, offs map[int64]struct{}, what string) {
	for o := range offs {
		i := w.M.Index(o)
		if i < 0 {
			w.failf("C16", "%s selected offset %d which is not live", what, o)
			continue
		}
		m := w.M.Live[i]
		if len(m.Val) != 0 {
			w.failf("C16", "%s selected %v which has a value", what, m)
		}
		if m.T > t {
			w.failf("C16", "%s selected %v which is newer than the cut-off %d", what, m, t)
		}
		for _, x := range w.M.Live[:i] {
			if bytes.Equal(x.Key, m.Key) {
				w.failf("C16", "%s selected %v which is not the oldest live message of its key [live %v]", what, m, w.M.Live)
				break
			}
		}
	}
}

func init() {
	extraLetters["CU"] = func(w *World, arg string) bool { return w.compactLetter("U", arg) }
	extraLetters["CD"] = func(w *World, arg string) bool { return w.compactLetter("D", arg) }
	extraLetters["CC"] = func(w *World, arg string) bool { return w.compactAll(arg) }
	extraLetters["Mi"] = func(w *World, arg string) bool { return w.migrateLetter(arg) }
	extraLetters["Bk"] = func(w *World, arg string) bool { return w.backupLetter(arg) }
	extraLetters["F"] = func(w *World, arg string) bool { return w.firstCallLetter(arg) }
	// X:<letter>;<letter>;... applies several letters as one (compound leaf letters)
	extraLetters["X"] = func(w *World, arg string) bool {
		for _, l := range strings.Split(arg, ";") {
			if !w.Apply(l) {
				return false
			}
		}
		return true
	}
}

// compactLetter: arg "<mode>,<cutoff µs>", mode s|m|o
func (w *World) compactLetter(kind, arg string) bool {
	mode, ts, _ := strings.Cut(arg, ",")
	t, _ := strconv.ParseInt(ts, 10, 64)
	cut := time.UnixMicro(t)
	ctx := context.Background()
	name := fmt.Sprintf("Compact%s(%s,%d)", map[string]string{"U": "Updates", "D": "Deletes"}[kind], mode, t)
	before := Latest(w.M)
	beforeM := w.M.Clone()
	var sel map[int64]struct{}
	var ferr error
	if kind == "U" {
		sel, ferr = klevdb.FindUpdates(ctx, w.L, cut)
	} else {
		sel, ferr = klevdb.FindDeletes(ctx, w.L, cut)
	}
	if ferr != nil {
		w.failf("C16", "%s: find failed: %v", name, ferr)
		return true
	}
	if kind == "U" {
		w.checkUpdatesSet(t, sel, "FindUpdates")
	} else {
		w.checkDeletesSet(t, sel, "FindDeletes")
	}
	pl := &passLog{Log: w.L, w: w}
	var got map[int64]struct{}
	var err error
	collect := func(msgs []klevdb.Message, _ int64, e error) {
		got = map[int64]struct{}{}
		for _, m := range msgs {
			got[m.Offset] = struct{}{}
		}
		err = e
	}
	switch kind + mode {
	case "Us":
		collect(klevdb.CompactUpdates(ctx, pl, cut))
	case "Um":
		collect(klevdb.CompactUpdatesMulti(ctx, pl, cut, NoBackoff))
	case "Uo":
		got, _, err = klevdb.CompactUpdatesMultiOffsets(ctx, pl, cut, NoBackoff)
	case "Ds":
		collect(klevdb.CompactDeletes(ctx, pl, cut))
	case "Dm":
		collect(klevdb.CompactDeletesMulti(ctx, pl, cut, NoBackoff))
	case "Do":
		got, _, err = klevdb.CompactDeletesMultiOffsets(ctx, pl, cut, NoBackoff)
	default:
		panic("bad compact letter")
	}
	if err != nil {
		w.failf("C16", "%s failed: %v", name, err)
		return true
	}
	save := w.M
	w.M = beforeM
	if kind == "U" {
		w.checkUpdatesSet(t, got, name)
	} else {
		w.checkDeletesSet(t, got, name)
	}
	w.M = save
	for o := range pl.offs {
		if _, ok := got[o]; !ok {
			w.failf("C16", "%s did not report offset %d which it deleted", name, o)
		}
	}
	if after := Latest(w.M); !sameLatest(before, after) {
		w.failf("C16", "%s changed the latest value of a key: before %v after %v", name, before, after)
	}
	if kind == "U" && mode != "s" && beforeM.Monotone {
		cnt := map[string]int{}
		for _, m := range w.M.Live {
			if m.T <= t {
				cnt[string(m.Key)]++
			}
		}
		for k, n := range cnt {
			if n > 1 {
				w.failf("C16", "%s left %d messages of key %q not newer than the cut-off [live %v]", name, n, k, w.M.Live)
			}
		}
	}
	return true
}

// compactAll: Compact(ctx, l, age) where age (µs) is relative to the logical clock.
func (w *World) compactAll(arg string) bool {
	age, _ := strconv.ParseInt(arg, 10, 64)
	// the logical clock is put just after the newest message so that both
	// cut-offs (now-age, now-2*age) fall among the message times
	maxT := BaseT
	for _, m := range w.M.Live {
		if m.T > maxT {
			maxT = m.T
		}
	}
	vtime.SetClock(time.UnixMicro(maxT + 2))
	before := Latest(w.M)
	pl := &passLog{Log: w.L, w: w}
	if err := klevdb.Compact(context.Background(), pl, time.Duration(age)*time.Microsecond, NoBackoff); err != nil {
		w.failf("C16", "Compact(%d) failed: %v", age, err)
		return true
	}
	if after := Latest(w.M); !sameLatest(before, after) {
		w.failf("C16", "Compact(%d) changed the latest value of a key: before %v after %v", age, before, after)
	}
	return true
}

// ---- C17: migration -----------------------------------------------------

// migrateLetter: Close, Migrate(dir, opts, V<arg>) once or twice ("1", "2", "11", "22"), Open.
func (w *World) migrateLetter(arg string) bool {
	if w.L != nil {
		if err := w.L.Close(); err != nil {
			w.failf("C01", "Close failed: %v", err)
		}
		w.L = nil
	}
	if w.AtClose != nil {
		w.AtClose(w)
	}
	v := klevdb.V2
	vi := 2
	if arg[0] == '1' {
		v, vi = klevdb.V1, 1
	}
	// a closed log that passes Check passes it after the migration as well (a migrated log behaves like
	// one written in that version: it can be opened with Check); differential, no expected value of ours
	cleanBefore := klevdb.Check(w.Dir, w.Cfg.Options())
	if err := klevdb.Migrate(w.Dir, w.Cfg.Options(), v); err != nil {
		w.failf("C17", "Migrate(V%d) failed: %v", vi, err)
		return false
	}
	if cleanBefore == nil {
		if err := klevdb.Check(w.Dir, w.Cfg.Options()); err != nil {
			w.failf("C17", "the closed log passed Check before Migrate(V%d) and fails it afterwards: %v", vi, err)
		}
	}
	bases, vers := SegVersions(w.Dir)
	for i, sv := range vers {
		if sv != vi {
			w.failf("C17", "after Migrate(V%d) segment %d has version %d", vi, bases[i], sv)
		}
	}
	if len(arg) > 1 {
		d1 := DirDigest(w.Dir, true)
		if err := klevdb.Migrate(w.Dir, w.Cfg.Options(), v); err != nil {
			w.failf("C17", "second Migrate(V%d) failed: %v", vi, err)
			return false
		}
		if d2 := DirDigest(w.Dir, true); d1 != d2 {
			w.failf("C17", "second Migrate(V%d) changed the directory", vi)
		}
	}
	if err := w.open(w.Cfg.Options()); err != nil {
		w.failf("C17,C01", "Open after Migrate(V%d) failed: %v", vi, err)
		return false
	}
	return true
}

// CheckVersions is the C17 family invariant, evaluated after a letter given
// the segment versions before it.
type VerSnap struct {
	Bases []int64
	Vers  []int
	Sizes []int64 // size of the log file: a 0-byte file has no version yet
	Live  []int64
}

func (w *World) SnapVersions() VerSnap {
	b, v := SegVersions(w.Dir)
	sz := make([]int64, len(b))
	for i, base := range b {
		if st, err := os.Stat(filepath.Join(w.Dir, fmt.Sprintf("%020d.log", base))); err == nil {
			sz[i] = st.Size()
		}
	}
	return VerSnap{Bases: b, Vers: v, Sizes: sz, Live: offsOf(w.M.Live)}
}

func segOf(bases []int64, off int64) int {
	s := -1
	for i, b := range bases {
		if b <= off {
			s = i
		}
	}
	return s
}

// CheckVersionsAfter validates segment versions after one letter.
func (w *World) CheckVersionsAfter(letter string, before VerSnap, keep bool) {
	kind, arg, _ := strings.Cut(letter, ":")
	after := w.SnapVersions()
	switch kind {
	case "P":
		// segments that did not exist before were created by rollover
		old := map[int64]int{}
		oldSize := map[int64]int64{}
		for i, b := range before.Bases {
			old[b] = before.Vers[i]
			oldSize[b] = before.Sizes[i]
		}
		for i, b := range after.Bases {
			if v, ok := old[b]; ok {
				if oldSize[b] == 0 {
					// a 0-byte head had no version yet: what is written into it is new
					if after.Sizes[i] > 0 && after.Vers[i] != w.Cfg.Ver {
						w.failf("C17", "Publish into the empty 0-byte head segment %d wrote version %d, NewSegmentsVersion is %d", b, after.Vers[i], w.Cfg.Ver)
					}
				} else if v != after.Vers[i] {
					w.failf("C17", "Publish changed the version of segment %d from %d to %d", b, v, after.Vers[i])
				}
			} else if after.Vers[i] != w.Cfg.Ver {
				w.failf("C17", "segment %d created by rollover has version %d, NewSegmentsVersion is %d", b, after.Vers[i], w.Cfg.Ver)
			}
		}
	case "D":
		// segments that lost a message were rewritten
		touched := map[int]bool{}
		liveAfter := map[int64]bool{}
		for _, o := range after.Live {
			liveAfter[o] = true
		}
		for _, o := range before.Live {
			if !liveAfter[o] {
				touched[segOf(before.Bases, o)] = true
			}
		}
		// a head segment the Delete created (the tail or the whole head was deleted) is a new segment
		wasBase := map[int64]bool{}
		for _, b := range before.Bases {
			wasBase[b] = true
		}
		for i, b := range after.Bases {
			// (a 0-byte file has no version yet: judged by the next Publish into it)
			if !wasBase[b] && b == w.M.Next && after.Sizes[i] > 0 && after.Vers[i] != w.Cfg.Ver {
				w.failf("C17", "Delete(%s) created the new head segment %d in version %d, NewSegmentsVersion is %d", arg, b, after.Vers[i], w.Cfg.Ver)
			}
		}
		for _, o := range after.Live {
			sb := segOf(before.Bases, o)
			sa := segOf(after.Bases, o)
			if sb < 0 || sa < 0 {
				continue
			}
			vb, va := before.Vers[sb], after.Vers[sa]
			switch {
			case !touched[sb] && va != vb:
				w.failf("C17", "Delete(%s) changed the version of the untouched segment holding offset %d from %d to %d", arg, o, vb, va)
			case touched[sb] && keep && va != vb:
				w.failf("C17", "Delete(%s) with KeepRewriteVersion rewrote the segment holding offset %d from version %d to %d", arg, o, vb, va)
			case touched[sb] && !keep && va != w.Cfg.Ver:
				w.failf("C17", "Delete(%s) without KeepRewriteVersion rewrote the segment holding offset %d to version %d, NewSegmentsVersion is %d", arg, o, va, w.Cfg.Ver)
			}
		}
	case "R":
		if w.Cfg.Eager {
			for i, v := range after.Vers {
				if v != w.Cfg.Ver {
					w.failf("C17", "after Open with EagerVersionMigrate segment %d has version %d, want %d", after.Bases[i], v, w.Cfg.Ver)
				}
			}
		} else {
			for i, b := range after.Bases {
				for j, bb := range before.Bases {
					if b == bb && after.Vers[i] != before.Vers[j] {
						// an empty V1 head is a 0-byte file and may be re-headed; only non-empty segments count
						if st, err := os.Stat(filepath.Join(w.Dir, fmt.Sprintf("%020d.log", b))); err == nil && st.Size() > 8 {
							w.failf("C17", "reopen without eager migration changed the version of segment %d from %d to %d", b, before.Vers[j], after.Vers[i])
						}
					}
				}
			}
		}
	}
}

// ---- first calls on a fresh handle ------------------------------------------

// firstCallLetter: arg "<flags>/<group>". Close, optionally remove the index files ("x"),
// reopen (read-only with "r") and let ONE group of read calls be the first thing the handle
// sees (w walk, c consume, g get, k key, t time, s stat, n next, f find helpers): nothing has
// loaded a segment or rebuilt an index before them. The usual full observation follows as
// the observation of the letter. Leaf letter: with "r" the world is left on the read-only handle.
func (w *World) firstCallLetter(arg string) bool {
	flags, group, _ := strings.Cut(arg, "/")
	if w.L != nil {
		if err := w.L.Close(); err != nil {
			w.failf("C01", "Close failed: %v", err)
		}
		w.L = nil
	}
	if strings.Contains(flags, "x") {
		idx, _ := filepath.Glob(filepath.Join(w.Dir, "*.index"))
		for _, p := range idx {
			_ = os.Remove(p)
		}
	}
	o := w.Cfg.Options()
	o.Readonly = strings.Contains(flags, "r")
	if err := w.open(o); err != nil {
		w.failf("C01,C11,C19", "Open(%s) failed: %v", flags, err)
		return false
	}
	m := map[string]ObsMask{"w": ObsWalk, "c": ObsConsume, "g": ObsGet, "k": ObsKey, "t": ObsTime, "s": ObsStat, "n": ObsNext, "f": ObsTrim}[group]
	w.Observe(m)
	return true
}

// ---- C20: backup --------------------------------------------------------

// backupLetter: arg "n" new directory via Log.Backup, "s" same directory as
// the previous backup, "pn"/"ps" the same through the package-level Backup
// on the closed source.
func (w *World) backupLetter(arg string) bool {
	pkg := strings.HasPrefix(arg, "p")
	same := strings.HasSuffix(arg, "s")
	// "f…": Log.Backup is the first call on a freshly opened handle, "r…": on a freshly opened
	// read-only handle; with "x" the index files are removed before that open
	fresh := strings.HasPrefix(arg, "f") || strings.HasPrefix(arg, "r")
	freshRO := strings.HasPrefix(arg, "r")
	rmIdx := strings.Contains(arg, "x")
	if !same || w.BkDir == "" {
		w.bkN++
		w.BkDir = filepath.Join(filepath.Dir(w.Dir), filepath.Base(w.Dir)+".bk"+strconv.Itoa(w.bkN))
		_ = os.RemoveAll(w.BkDir)
		w.bkDirs = append(w.bkDirs, w.BkDir)
		if !pkg {
			if err := os.MkdirAll(w.BkDir, 0o700); err != nil {
				panic(err)
			}
		}
	}
	// earlier backups are snapshots: they must not change when the source moves on
	for d, dg := range w.bkDigest {
		if d != w.BkDir {
			if now := DirDigest(d, true); now != dg {
				w.failf("C20", "an earlier backup (%s) changed after it was taken", filepath.Base(d))
			}
		}
	}
	srcBefore := DirDigest(w.Dir, true)
	srcFP := w.Observe(ObsAll | ObsFP)
	srcAfterObs := DirDigest(w.Dir, true)
	_ = srcBefore
	var err error
	if pkg {
		if cerr := w.L.Close(); cerr != nil {
			w.failf("C01", "Close failed: %v", cerr)
		}
		w.L = nil
		srcAfterObs = DirDigest(w.Dir, true)
		err = klevdb.Backup(w.Dir, w.BkDir)
	} else if fresh {
		if cerr := w.L.Close(); cerr != nil {
			w.failf("C01", "Close failed: %v", cerr)
		}
		w.L = nil
		if rmIdx {
			idx, _ := filepath.Glob(filepath.Join(w.Dir, "*.index"))
			for _, p := range idx {
				_ = os.Remove(p)
			}
		}
		o := w.Cfg.Options()
		o.Readonly = freshRO
		fl, oerr := klevdb.Open(w.Dir, o)
		if oerr != nil {
			w.failf("C01,C11", "Open(readonly=%v) before Backup(%s) failed: %v", freshRO, arg, oerr)
			if oerr := w.open(w.Cfg.Options()); oerr != nil {
				return false
			}
			return true
		}
		srcAfterObs = DirDigest(w.Dir, true)
		err = fl.Backup(w.BkDir)
		// (a read-write handle may rebuild removed index files while backing up: derived data)
		if freshRO || !rmIdx {
			if d := DirDigest(w.Dir, true); d != srcAfterObs {
				w.failf("C20", "Backup(%s) through a freshly opened handle (readonly=%v) changed the source directory", arg, freshRO)
			}
		}
		srcAfterObs = ""
		if cerr := fl.Close(); cerr != nil {
			w.failf("C01", "Close after Backup(%s) failed: %v", arg, cerr)
		}
		if oerr := w.open(w.Cfg.Options()); oerr != nil {
			w.failf("C01", "Open after Backup(%s) failed: %v", arg, oerr)
			return false
		}
	} else {
		err = w.L.Backup(w.BkDir)
	}
	if err != nil {
		w.failf("C20", "Backup(%s) failed: %v", arg, err)
	}
	if d := DirDigest(w.Dir, true); srcAfterObs != "" && d != srcAfterObs {
		w.failf("C20", "Backup(%s) changed the source directory", arg)
	}
	if fresh {
		srcAfterObs = DirDigest(w.Dir, true)
	}
	if pkg {
		if oerr := w.open(w.Cfg.Options()); oerr != nil {
			w.failf("C01", "Open after package-level Backup failed: %v", oerr)
			return false
		}
	}
	if err != nil {
		return true
	}
	// the backup must pass Check and open to the same log
	if cerr := klevdb.Check(w.BkDir, w.Cfg.Options()); cerr != nil {
		w.failf("C20", "Check of the backup (%s) failed: %v", arg, cerr)
	}
	o := w.Cfg.Options()
	o.Check = true
	bl, oerr := klevdb.Open(w.BkDir, o)
	if oerr != nil {
		w.failf("C20", "Open(Check) of the backup (%s) failed: %v", arg, oerr)
		return true
	}
	src := w.L
	srcDir := w.Dir
	srcTr := w.Transcript
	nd := len(w.Dis)
	w.L, w.Dir = bl, w.BkDir
	bkFP := w.Observe(ObsAll | ObsFP)
	w.L, w.Dir = src, srcDir
	// differential oracle: the backup must answer exactly like the source did
	// (what the source itself gets wrong is charged where it belongs)
	w.Dis = w.Dis[:nd]
	if bkFP != srcFP {
		w.failf("C20", "backup (%s) answers queries differently from the source: %s", arg, DiffTranscripts(srcTr, w.Transcript))
	}
	if cerr := bl.Close(); cerr != nil {
		w.failf("C20", "Close of the backup failed: %v", cerr)
	}
	if d := DirDigest(w.Dir, true); d != srcAfterObs && !pkg {
		w.failf("C20", "opening the backup (%s) changed the source directory", arg)
	}
	if w.bkDigest == nil {
		w.bkDigest = map[string]string{}
	}
	w.bkDigest[w.BkDir] = DirDigest(w.BkDir, true)
	w.BkClean = true
	return true
}

// ---- C11: index files are derived data ------------------------------------

// CheckIndexFiles compares every index file of the closed directory with the
// index derived from its log file by the reference codec.
func (w *World) CheckIndexFiles() {
	ents, _ := os.ReadDir(w.Dir)
	var logs []string
	for _, e := range ents {
		if strings.HasSuffix(e.Name(), ".log") {
			logs = append(logs, e.Name())
		}
	}
	sort.Strings(logs)
	for _, ln := range logs {
		data, err := os.ReadFile(filepath.Join(w.Dir, ln))
		if err != nil {
			continue
		}
		in := strings.TrimSuffix(ln, ".log") + ".index"
		idx, err := os.ReadFile(filepath.Join(w.Dir, in))
		if err != nil {
			continue // absent index files are fine: they are rebuilt
		}
		ver, recs, _, clean := refcodec.ParseLog(data)
		if !clean {
			w.failf("C11,C01", "segment %s does not parse completely at close", ln)
			continue
		}
		_ = ver
		iver, items, ok := refcodec.ParseIndex(idx, w.Cfg.Times, w.Cfg.Keys)
		if !ok {
			w.failf("C11", "index %s has a size that is not a whole number of items", in)
			continue
		}
		if iver == 2 {
			if want := refcodec.IndexHeader(2, w.Cfg.Times, w.Cfg.Keys); !bytes.Equal(idx[:8], want) {
				w.failf("C11", "index %s header = %x, want %x", in, idx[:8], want)
			}
		}
		if len(items) != len(recs) {
			// an empty/absent index is rebuilt on open; anything else must match
			if len(items) != 0 {
				w.failf("C11", "index %s has %d items, its log has %d records", in, len(items), len(recs))
			}
			continue
		}
		var ts int64
		for i, r := range recs {
			it := items[i]
			if it.Off != r.Off || it.Pos != r.Pos {
				w.failf("C11", "index %s item %d = (off %d, pos %d), log record is (off %d, pos %d)", in, i, it.Off, it.Pos, r.Off, r.Pos)
				break
			}
			if w.Cfg.Keys && it.Hash != refcodec.FNV1a64(r.Key) {
				w.failf("C11", "index %s item %d key hash %x, want %x", in, i, it.Hash, refcodec.FNV1a64(r.Key))
				break
			}
			if w.Cfg.Times && w.M.Monotone {
				if r.T > ts {
					ts = r.T
				}
				if it.TS != ts {
					w.failf("C11", "index %s item %d timestamp %d, want %d", in, i, it.TS, ts)
					break
				}
			}
		}
	}
}

// IndexSubsets opens copies of the closed directory with subsets of index
// files removed, read-write and read-only, and requires the same answers.
func (w *World) IndexSubsets(all bool) {
	idx, _ := filepath.Glob(filepath.Join(w.Dir, "*.index"))
	sort.Strings(idx)
	if len(idx) == 0 {
		return
	}
	var subsets [][]int
	subsets = append(subsets, nil) // none removed: the reference
	if all && len(idx) <= 5 {
		for m := 1; m < 1<<len(idx); m++ {
			var s []int
			for i := range idx {
				if m&(1<<i) != 0 {
					s = append(s, i)
				}
			}
			subsets = append(subsets, s)
		}
	} else {
		var allIdx []int
		for i := range idx {
			allIdx = append(allIdx, i)
			subsets = append(subsets, []int{i})
		}
		if len(idx) > 1 {
			subsets = append(subsets, allIdx)
		}
	}
	var ref [4]uint64
	var refTr [4][]string
	var refFail [4]bool
	refCheckFail := false
	clock := vtime.Clock()
	for si, sub := range subsets {
		// modes 2 and 3: the same with the integrity check asked for (a missing index file is not damage)
		for mode := 0; mode < 4; mode++ {
			cp := w.Dir + ".ix"
			_ = os.RemoveAll(cp)
			if err := CopyDir(w.Dir, cp); err != nil {
				panic(err)
			}
			for _, i := range sub {
				_ = os.Remove(filepath.Join(cp, filepath.Base(idx[i])))
			}
			o := w.Cfg.Options()
			o.Readonly = mode%2 == 1
			o.Check = mode >= 2
			if refFail[mode] {
				_ = os.RemoveAll(cp)
				continue
			}
			if o.Check && !o.Readonly {
				if err := klevdb.Check(cp, o); err != nil {
					if si == 0 {
						refCheckFail = true
					} else if !refCheckFail {
						w.failf("C11", "Check with index files %v removed failed: %v", sub, err)
					}
				}
			}
			l, err := klevdb.Open(cp, o)
			if err != nil {
				if si == 0 && o.Check {
					refFail[mode] = true // the complete directory does not pass Check either: nothing to compare with
				} else {
					w.failf("C11", "Open(readonly=%v check=%v) with index files %v removed failed: %v", o.Readonly, o.Check, sub, err)
				}
				_ = os.RemoveAll(cp)
				continue
			}
			saveL, saveD := w.L, w.Dir
			nd := len(w.Dis)
			w.L, w.Dir = l, cp
			st0, serr := l.Stat()
			// Stat sizes are left out of the comparison: a rebuilt index file may
			// legitimately use another index format version than the removed one
			fp := w.Observe((ObsAll &^ ObsStat &^ ObsTrim) | ObsFP)
			w.L, w.Dir = saveL, saveD
			// differential oracle: only differences between the copies count here
			w.Dis = w.Dis[:nd]
			if serr != nil {
				w.failf("C11", "with index files %v removed (readonly=%v) Stat right after Open fails: %v", sub, o.Readonly, serr)
			} else if st0.Messages != len(w.M.Live) {
				w.failf("C11", "with index files %v removed (readonly=%v) Stat right after Open reports %d messages, want %d", sub, o.Readonly, st0.Messages, len(w.M.Live))
			}
			if si == 0 {
				ref[mode] = fp
				refTr[mode] = w.Transcript
			} else if fp != ref[mode] {
				w.failf("C11", "with index files %v removed (readonly=%v) the log answers differently: %s", sub, o.Readonly, DiffTranscripts(refTr[mode], w.Transcript))
			}
			if mode == 1 && ref[0] != ref[1] && si == 0 {
				w.failf("C11,C19", "read-only and read-write handles answer differently on the same files: %s", DiffTranscripts(refTr[0], refTr[1]))
			}
			_ = l.Close()
			_ = os.RemoveAll(cp)
			vtime.SetClock(clock)
		}
	}
}

// CopyDir copies all regular files of src (except .lock) into a new dir dst.
func CopyDir(src, dst string) error {
	if err := os.MkdirAll(dst, 0o700); err != nil {
		return err
	}
	ents, err := os.ReadDir(src)
	if err != nil {
		return err
	}
	for _, e := range ents {
		if e.Name() == ".lock" || !e.Type().IsRegular() {
			continue
		}
		data, err := os.ReadFile(filepath.Join(src, e.Name()))
		if err != nil {
			return err
		}
		if err := os.WriteFile(filepath.Join(dst, e.Name()), data, 0o600); err != nil {
			return err
		}
	}
	return nil
}
