package drv

import (
	"context"
	"errors"
	"fmt"
	"strconv"
	"strings"
	"time"

	"github.com/klev-dev/klevdb"

	"verif/h/model"
)

// ---- C15: trim helpers --------------------------------------------------

// prefixLen returns k if offs is exactly the set of the first k live offsets, else -1.
func (w *World) prefixLen(offs map[int64]struct{}) int {
	k := len(offs)
	if k > len(w.M.Live) {
		return -1
	}
	for i := 0; i < k; i++ {
		if _, ok := offs[w.M.Live[i].Off]; !ok {
			return -1
		}
	}
	return k
}

// SizeBounds returns the size targets probed at the current state: 0, 1, and
// for every prefix the remaining estimate and its neighbours, plus the
// current size and size+1.
func (w *World) SizeBounds() []int64 {
	st, err := w.L.Stat()
	if err != nil {
		return []int64{0, 1}
	}
	seen := map[int64]bool{}
	var out []int64
	add := func(v int64) {
		if v >= 0 && !seen[v] {
			seen[v] = true
			out = append(out, v)
		}
	}
	add(0)
	add(1)
	rem := st.Size
	for _, m := range w.M.Live {
		add(rem - 1)
		add(rem)
		add(rem + 1)
		rem -= w.L.Size(klevdb.Message{Key: m.Key, Value: m.Val})
	}
	add(rem - 1)
	add(rem)
	add(rem + 1)
	return out
}

func (w *World) checkFindOffset(b int64, offs map[int64]struct{}, err error) int {
	if err != nil {
		w.failf("C15", "FindByOffset(%d) failed: %v", b, err)
		return -1
	}
	k := w.prefixLen(offs)
	if k < 0 {
		w.failf("C15", "FindByOffset(%d) = %v is not a prefix of the live sequence %v", b, keys(offs), offsOf(w.M.Live))
		return -1
	}
	bound := b
	if b == klevdb.OffsetNewest {
		bound = w.M.Next
	}
	if b == klevdb.OffsetOldest {
		bound = 0
	}
	want := 0
	for _, m := range w.M.Live {
		if m.Off < bound {
			want++
		}
	}
	if k != want {
		w.failf("C15", "FindByOffset(%d) selected %d messages, %d live offsets are below the bound %v", b, k, want, offsOf(w.M.Live))
	}
	return k
}

func (w *World) checkFindCount(n int, offs map[int64]struct{}, err error) int {
	if err != nil {
		w.failf("C15", "FindByCount(%d) failed: %v", n, err)
		return -1
	}
	k := w.prefixLen(offs)
	if k < 0 {
		w.failf("C15", "FindByCount(%d) = %v is not a prefix of the live sequence %v", n, keys(offs), offsOf(w.M.Live))
		return -1
	}
	want := len(w.M.Live) - n
	if want < 0 {
		want = 0
	}
	if k != want {
		w.failf("C15", "FindByCount(%d) selected %d of %d messages, want %d", n, k, len(w.M.Live), want)
	}
	return k
}

func (w *World) checkFindSize(s int64, offs map[int64]struct{}, err error) int {
	if err != nil {
		w.failf("C15", "FindBySize(%d) failed: %v", s, err)
		return -1
	}
	k := w.prefixLen(offs)
	if k < 0 {
		w.failf("C15", "FindBySize(%d) = %v is not a prefix of the live sequence %v", s, keys(offs), offsOf(w.M.Live))
		return -1
	}
	st, serr := w.L.Stat()
	if serr != nil {
		return k
	}
	est := func(j int) int64 {
		rem := st.Size
		for i := 0; i < j; i++ {
			rem -= w.L.Size(klevdb.Message{Key: w.M.Live[i].Key, Value: w.M.Live[i].Val})
		}
		return rem
	}
	if !(est(k) < s || k == len(w.M.Live)) {
		w.failf("C15", "FindBySize(%d) selected %d messages, estimated remaining size %d is not below the target", s, k, est(k))
	}
	if k > 0 && est(k-1) < s {
		w.failf("C15", "FindBySize(%d) selected %d messages although %d already bring the estimate to %d", s, k, k-1, est(k-1))
	}
	return k
}

func (w *World) checkFindAge(t int64, offs map[int64]struct{}, err error) int {
	if err != nil && len(w.M.Live) == 0 && (errors.Is(err, klevdb.ErrInvalidOffset) || errors.Is(err, klevdb.ErrNotFound)) {
		// no live message at all: the time lookup underneath may say so (C10 allows both errors)
		return 0
	}
	if err != nil {
		w.failf("C15", "FindByAge(%d) failed: %v [live %v]", t, err, w.M.Live)
		return -1
	}
	k := w.prefixLen(offs)
	if k < 0 {
		w.failf("C15", "FindByAge(%d) = %v is not a prefix of the live sequence %v", t, keys(offs), w.M.Live)
		return -1
	}
	for i := 0; i < k; i++ {
		if w.M.Live[i].T > t {
			w.failf("C15", "FindByAge(%d) selected %v which is newer than the bound", t, w.M.Live[i])
		}
	}
	if w.M.Monotone {
		for i := k; i < len(w.M.Live); i++ {
			if w.M.Live[i].T < t {
				w.failf("C15", "FindByAge(%d) left %v which is older than the bound (selected %d) [live %v]", t, w.M.Live[i], k, w.M.Live)
				break
			}
		}
	}
	return k
}

func (o *obs) trim(ObsMask) {
	w := o.w
	ctx := context.Background()
	bounds := []int64{klevdb.OffsetOldest, klevdb.OffsetNewest}
	for b := int64(0); b <= w.M.Next+1; b++ {
		bounds = append(bounds, b)
	}
	for _, b := range bounds {
		offs, err := klevdb.FindByOffset(ctx, w.L, b)
		o.rec("findoffset %d %v %s", b, keys(offs), errClass(err))
		w.checkFindOffset(b, offs, err)
	}
	for n := 0; n <= len(w.M.Live)+1; n++ {
		offs, err := klevdb.FindByCount(ctx, w.L, n)
		o.rec("findcount %d %v %s", n, keys(offs), errClass(err))
		w.checkFindCount(n, offs, err)
	}
	for _, s := range w.SizeBounds() {
		offs, err := klevdb.FindBySize(ctx, w.L, s)
		o.rec("findsize %d %v %s", s, keys(offs), errClass(err))
		w.checkFindSize(s, offs, err)
	}
	for _, t := range w.TimeQueries() {
		offs, err := klevdb.FindByAge(ctx, w.L, time.UnixMicro(t))
		o.rec("findage %d %v %s", t, keys(offs), errClass(err))
		w.checkFindAge(t, offs, err)
	}
}

// trim letters: TrO/TrC/TrS/TrA : "<mode>,<bound>", mode s (single pass), m (Multi), o (MultiOffsets)
func init() {
	extraLetters["TrO"] = func(w *World, arg string) bool { return w.trimLetter("O", arg) }
	extraLetters["TrC"] = func(w *World, arg string) bool { return w.trimLetter("C", arg) }
	extraLetters["TrS"] = func(w *World, arg string) bool { return w.trimLetter("S", arg) }
	extraLetters["TrA"] = func(w *World, arg string) bool { return w.trimLetter("A", arg) }
}

func (w *World) trimLetter(kind, arg string) bool {
	mode, bs, _ := strings.Cut(arg, ",")
	bound, _ := strconv.ParseInt(bs, 10, 64)
	ctx := context.Background()
	name := fmt.Sprintf("TrimBy%s(%s,%d)", map[string]string{"O": "Offset", "C": "Count", "S": "Size", "A": "Age"}[kind], mode, bound)
	// size estimates include index files, which are rebuilt on demand: read
	// through the log first so that the helper's own Stat sees what ours does
	if kind == "S" {
		w.apply("L", "")
	}
	// what the finder selects right now (validated separately)
	var sel map[int64]struct{}
	var ferr error
	switch kind {
	case "O":
		sel, ferr = klevdb.FindByOffset(ctx, w.L, bound)
	case "C":
		sel, ferr = klevdb.FindByCount(ctx, w.L, int(bound))
	case "S":
		sel, ferr = klevdb.FindBySize(ctx, w.L, bound)
	case "A":
		sel, ferr = klevdb.FindByAge(ctx, w.L, time.UnixMicro(bound))
	}
	if ferr != nil {
		if kind == "A" && w.checkFindAge(bound, nil, ferr) == 0 {
			return true
		}
		w.failf("C15", "%s: find failed: %v", name, ferr)
		return true
	}
	k := w.prefixLen(sel)
	before := w.M.Clone()
	pl := &passLog{Log: w.L, w: w}
	var got map[int64]struct{}
	var err error
	collect := func(msgs []klevdb.Message, _ int64, e error) {
		got = map[int64]struct{}{}
		for _, m := range msgs {
			got[m.Offset] = struct{}{}
		}
		err = e
	}
	t := time.UnixMicro(bound)
	switch kind + mode {
	case "Os":
		collect(klevdb.TrimByOffset(ctx, pl, bound))
	case "Om":
		collect(klevdb.TrimByOffsetMulti(ctx, pl, bound, NoBackoff))
	case "Oo":
		got, _, err = klevdb.TrimByOffsetMultiOffsets(ctx, pl, bound, NoBackoff)
	case "Cs":
		collect(klevdb.TrimByCount(ctx, pl, int(bound)))
	case "Cm":
		collect(klevdb.TrimByCountMulti(ctx, pl, int(bound), NoBackoff))
	case "Co":
		got, _, err = klevdb.TrimByCountMultiOffsets(ctx, pl, int(bound), NoBackoff)
	case "Ss":
		collect(klevdb.TrimBySize(ctx, pl, bound))
	case "Sm":
		collect(klevdb.TrimBySizeMulti(ctx, pl, bound, NoBackoff))
	case "So":
		collect(klevdb.TrimBySizeMultiOffsets(ctx, pl, bound, NoBackoff))
	case "As":
		collect(klevdb.TrimByAge(ctx, pl, t))
	case "Am":
		collect(klevdb.TrimByAgeMulti(ctx, pl, t, NoBackoff))
	case "Ao":
		got, _, err = klevdb.TrimByAgeMultiOffsets(ctx, pl, t, NoBackoff)
	default:
		panic("bad trim letter " + kind + mode)
	}
	if err != nil {
		w.failf("C15", "%s failed: %v", name, err)
		return true
	}
	// nothing outside the selected prefix may be touched
	for o := range got {
		if _, ok := sel[o]; !ok {
			w.failf("C15", "%s removed offset %d outside the selected prefix %v", name, o, keys(sel))
		}
	}
	for o := range pl.offs {
		if _, ok := got[o]; !ok {
			w.failf("C15", "%s did not report offset %d which it deleted", name, o)
		}
	}
	if mode == "s" || k < 0 {
		return true
	}
	// multi-pass variants: the whole prefix goes and the bound holds
	if len(got) != len(sel) {
		w.failf("C15", "%s removed %v, selected prefix was %v", name, keys(got), keys(sel))
		return true
	}
	switch kind {
	case "O":
		b := bound
		if b == klevdb.OffsetNewest {
			b = before.Next
		}
		for _, m := range w.M.Live {
			if m.Off < b {
				w.failf("C15", "%s left live offset %d below the bound", name, m.Off)
			}
		}
	case "C":
		want := len(before.Live)
		if int(bound) < want {
			want = int(bound)
		}
		if len(w.M.Live) != want {
			w.failf("C15", "%s left %d messages, want min(%d,%d)", name, len(w.M.Live), len(before.Live), bound)
		}
	case "S":
		if st, serr := w.L.Stat(); serr == nil && !(st.Size < bound || len(w.M.Live) == 0) && w.singleVersion() {
			w.failf("C15", "%s left Stat.Size %d, not below the target, with %d messages", name, st.Size, len(w.M.Live))
		}
	case "A":
		if before.Monotone {
			for _, m := range w.M.Live {
				if m.T < bound {
					w.failf("C15", "%s left %v older than the bound", name, m)
				}
			}
		}
	}
	return true
}

func (w *World) singleVersion() bool {
	_, vers := SegVersions(w.Dir)
	for _, v := range vers {
		if v != w.Cfg.Ver {
			return false
		}
	}
	return true
}

var _ = model.New
