package drv

func (o *obs) trim(ObsMask) {}
