#!/bin/bash
# tool/seedrun.sh <agent>/<k> <SEEDID> <checks...>: stages an author's delivery (patch.diff, demo_test.go, notes.md under $SEED_SRC/<agent>/<k>) as a seed directory under $SEED_STAGE and runs tool/seedcheck.sh on it
# run.sh <agent>/<k> <SEEDID> <checks...> : stage as seed dir and run seedcheck
src=${SEED_SRC:-/tmp/r6/out}/$1; id=$2; shift 2
d=${SEED_STAGE:-/dev/shm/r6}/$id; rm -rf $d; mkdir -p ${SEED_STAGE:-/dev/shm/r6}; mkdir -p $d
cp $src/patch.diff $d/; cp $src/demo_test.go $d/demo_test.go; cp $src/notes.md $d/ 2>/dev/null
/verif/tool/seedcheck.sh $d "$@" > ${SEED_STAGE:-/dev/shm/r6}/$id.txt 2>&1
echo "== $id"; cut -c1-330 ${SEED_STAGE:-/dev/shm/r6}/$id.txt
