#!/bin/bash
# Re-confirms every kept seeded change against /repo's HEAD and runs the checks recorded in its meta.json.
# Output: one block per seed; summary table at the end (written to /dev/shm/seedall/RESULTS.run.md; seeded/RESULTS.md is generated from the meta data).
cd /verif
out=/dev/shm/seedall; mkdir -p $out
for d in seeded/C*/; do
  id=$(basename $d)
  checks=$(python3 -c "import json;m=json.load(open('$d/meta.json'));print(' '.join(m['detected_by']) or m['property'])")
  tmp=/dev/shm/seedall/$id.dir; rm -rf $tmp; mkdir -p $tmp; cp $d/patch.diff $tmp/; cp $d/demo_test.go.txt $tmp/demo_test.go
  tool/seedcheck.sh $tmp $checks > $out/$id.txt 2>&1
  rm -rf $tmp
  echo "== $id"; cut -c1-200 $out/$id.txt
done
{
echo "| seed | applies | suite with change | demo with / without | checks (violations) |"
echo "|---|---|---|---|---|"
for d in seeded/C*/; do id=$(basename $d); f=$out/$id.txt
  a=$(grep -c "^APPLY: ok" $f); s=$(grep -o "SUITE with change: [A-Z]*" $f | cut -d' ' -f4); dw=$(grep -o "DEMO with change: [A-Z]*" $f | cut -d' ' -f4); dn=$(grep -o "DEMO without change: [A-Z]*" $f | cut -d' ' -f4)
  c=$(grep "^CHECK" $f | sed 's/CHECK \(C[0-9]*\): rc=\([0-9]\) violations=\([0-9]*\).*/\1:rc\2\/\3/' | tr '\n' ' ')
  echo "| $id | $a | $s | $dw / $dn | $c |"
done
} > /dev/shm/seedall/RESULTS.run.md
cat /dev/shm/seedall/RESULTS.run.md
