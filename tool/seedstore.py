#!/usr/bin/env python3
# store.py <SEEDID> <property> <detected_by comma list or -> <needs> <change one-liner> [note]
import sys, json, os, shutil, re
sid, prop, det, needs, change = sys.argv[1:6]
note = sys.argv[6] if len(sys.argv) > 6 else ""
stage = os.environ.get("SEED_STAGE", "/dev/shm/r6")
src = f"{stage}/{sid}"; dst = f"/verif/seeded/{sid}"
os.makedirs(dst, exist_ok=True)
shutil.copy(f"{src}/patch.diff", f"{dst}/patch.diff")
shutil.copy(f"{src}/demo_test.go", f"{dst}/demo_test.go.txt")
if os.path.exists(f"{src}/notes.md"): shutil.copy(f"{src}/notes.md", f"{dst}/notes.md")
txt = open(f"{stage}/{sid}.txt").read()
def g(p):
    m = re.search(p, txt); return m.group(1) if m else "?"
meta = {"id": sid, "round": int(os.environ.get("SEED_ROUND","6")), "property": prop, "change": change,
 "needs_to_manifest": needs,
 "written_for": "round 6: the author saw only the text of the property (or of 2-4 properties) and a scratch worktree; nothing from /verif",
 "ported_to_current_tree": False,
 "confirmed": {"applies_to": "/repo HEAD at confirmation time (tool/seedcheck.sh, scratch worktree)",
   "suite_with_change": g(r"SUITE with change: ([A-Z]+)"), "demo_with_change": g(r"DEMO with change: ([A-Z]+)"), "demo_without_change": g(r"DEMO without change: ([A-Z]+)")},
 "detected_by": [] if det == "-" else det.split(","),
 "how_run": "tool/seedcheck.sh <seed dir> <checks>: git apply in a scratch worktree, go test ./..., demo with/without, then VERIF_REPO=<worktree> ./check <id> quick"}
if note: meta["note"] = note
json.dump(meta, open(f"{dst}/meta.json", "w"), indent=1)
print("stored", sid, meta["confirmed"], meta["detected_by"])
