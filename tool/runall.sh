#!/bin/bash
# runs every registered quick (or $1) check sequentially; prints id, exit code, wall time
tier="${1:-quick}"; shift
cd /verif
ids="$@"; [ -z "$ids" ] && ids=$(python3 -c "import json;print(' '.join(c['property_id'] for c in json.load(open('MANIFEST.json'))['checks']))")
mkdir -p /dev/shm/vd
for id in $ids; do
  s=$(date +%s.%N)
  ./check $id $tier > /dev/shm/vd/$id.out 2> /dev/shm/vd/$id.err; rc=$?
  e=$(date +%s.%N)
  printf "%s rc=%d %.1fs viol=%s known=%s\n" $id $rc $(echo "$e - $s" | bc) "$(grep -c '^VIOLATION' /dev/shm/vd/$id.out)" "$(grep -c '^KNOWN-FINDING' /dev/shm/vd/$id.out)"
done
