#!/usr/bin/env python3
"""Writes /verif/MANIFEST.json from the table below (one place to edit)."""
import json, os, sys
here = os.path.dirname(os.path.dirname(os.path.abspath(__file__)))

SEQ_NOTE = ("Bounds: histories up to the depth completed (reported in evidence), logs of at most 8-10 messages and 5 segments, "
            "payloads up to a few hundred bytes. Trusted base: Go toolchain/runtime, tmpfs, the os/sync/time shims (they forward to the real "
            "primitives), the list model and the result-driven legality rules, the independent reference codec.")

def seq(text, ref, technique="explicit-state BFS over API histories on the real code vs list model"):
    return dict(engine="seqx", cat="model_checking", technique=technique, text=text, ref=ref, note=SEQ_NOTE)

checks = {
 "C01": seq("Exhaustive breadth-first exploration of all API histories over the family alphabets (publish 0-3 with every key/value shape and time pattern, every single delete, delete-all, delete-newest-segment, DeleteMulti, trim and compaction helpers, reopen plain/Recover/Check, reopen with index files removed, GC, Sync; rollover 1 byte .. 1 MiB; four index configurations; V1 and V2) up to the reported depth, on the real code through a build overlay; after every transition a cursor walk from OffsetOldest with maxCount 1,2,3,40 must equal the list model byte for byte. Complete inside the bounds, silent beyond them.", "DESIGN.md 3.1, 4/C01"),
 "C02": seq("Same engine over the 'tail' alphabet (publish 0-2, delete last / first / all / whole head / whole reader segment, reopen plain/Recover/Check/with indexes removed, Sync) for 4 index configurations x V1/V2 plus the core family: Publish must return model.Next+n and write back exactly the offsets in between over the bogus ones supplied, NextOffset/Sync must equal the model counter after every step, unique value tags make any reuse visible in the scan.", "DESIGN.md 4/C02"),
 "C03": seq("At every state of the core/cfg/roll/tail families: Consume(o,m) for every o in [-5,Next+2] and m in {1,2,3,40} (thorough 1..40) judged by the result-driven cursor rule on the list model, plus cursor walks that must visit every live message once and end at NextOffset.", "DESIGN.md 4/C03"),
 "C04": seq("At every state of the core/cfg/roll/tail families: Get(o) for every o in [0,Next+2] and both relative offsets, classified live / deleted (ErrNotFound) / unassigned (ErrInvalidOffset) against the list model.", "DESIGN.md 4/C04"),
 "C05": dict(engine="crashx", cat="fault_enumeration", technique="BFS over histories x exhaustive enumeration of crash images from the FS journal of the real code",
   text="Breadth-first search over histories of the crash family (publish with rollover, every single delete, whole-segment deletes, Sync, reopen plain / Recover / eager migration to the other version, Migrate; AutoSync on/off; V1 and V2) on the real code with a journaling shim under the os package. For the last letter of every transition: one crash image per file-system event prefix, torn variants of every record / index-item append (every byte for appends up to 48 bytes, the header/trailer boundary set beyond; thorough: every byte), and for short histories (thorough: all) every event prefix of the recovering Open itself (depth 2). Every distinct image is materialised, opened with Recover on the real code, observed through all views, recovered a second time (files must not change), appended to, Checked and re-read. Oracle: recovered content equals one of the states the property allows for the call in flight, NextOffset not below the acknowledged one, views agree, idempotence, append + Check.",
   ref="DESIGN.md 3.2, 4/C05", note="Fault model as fixed by the property (process crash with intact page cache; first 8 bytes of a file atomic). Bounds: history depth as reported, logs of at most 6 messages. The journal is validated byte for byte against the real directory after every transition. Trusted base: the os shim, tmpfs, the list model."),
 "C06": dict(engine="crashx", cat="fault_enumeration", technique="BFS over histories x exhaustive enumeration of tail-loss images from the FS journal (fsync-driven durability model)",
   text="Same histories and journal as C05. The journal tracks, per file identity (following renames), the length covered by the last fsync. At every event point of the last letter of every transition, every combination of tail-loss cuts of every file with unsynced bytes is materialised (cut candidates per file: fsynced length, every append boundary since, torn lengths inside the last append, current length), opened with Recover on the real code and compared with the acknowledged-durable prefix: w = largest offset returned by Sync, by Publish under AutoSync, or NextOffset at a returned Close. Oracle: Open(Recover) succeeds, the recovered sequence is a prefix of a state allowed for the call in flight and contains every message below w, NextOffset >= w.",
   ref="DESIGN.md 3.2, 4/C06", note="Fault model as fixed by the property (independent tail loss per file between fsynced and current length, directory operations durable in program order, first 8 bytes of a file atomic). Bounds: history depth as reported; at most 4000 cut combinations per point (reported as a cap if ever hit). Trusted base: the os shim's fsync tracking (journal validated against the real directory), tmpfs."),
 "C07": dict(engine="dmgx", cat="fault_enumeration", technique="exhaustive enumeration of the damage space vs independent reference parser",
   text="For every base head segment (4 record shapes x 4 index layouts, V2; V1 for truncation and index damage) built by the real writer, the complete damage space is enumerated: truncation to every length, every byte after the file header altered three ways, zero / 0xFF / pseudo-random tails of every length up to two records, index missing / truncated to every length / every byte inverted / extra plausible items / other layout. Each case goes through klevdb.Recover and through Open(Recover)+Close on the real code; an independent parser of the documented format says how many leading records are valid. Oracle: log after Recover is exactly that prefix, index (if present) equals the derived one, no temp file remains, undamaged segments are byte-identical, Check/Open(Check) before recovery succeed iff the reference parser consumes the whole file and the index is absent or equal, Check succeeds after Recover and after one more real Publish, and the scan returns k+1 messages.",
   ref="DESIGN.md 3.3, 4/C07", note="Bounds: segments of 1-4 records with key/value lengths from {0,1,3,40}; single-byte corruption (three replacement values per byte), not multi-byte. Trusted base: the reference parser (cross-checked against klevdb by C13), tmpfs."),
 "C14": dict(engine="dmgx", cat="fault_enumeration", technique="exhaustive enumeration of in-place damage vs undamaged model",
   text="Three-segment V2 logs with both indexes (2 records per segment; thorough also 3) built by the real writer; damage applied to one .log file at a time with the index files intact: every single-bit flip of every byte, every start x length 1..8 overwritten with zeros / 0xFF / pseudo-random / a copy of the preceding bytes, truncation to every length, every zero-filled suffix. After each: fresh Open with default options and the full read sweep (Consume at every offset x 3 counts, Get, GetByKey, ConsumeByKey from every offset, GetByTime at every microsecond). Oracle: a call whose undamaged answer contains an overwritten record must fail; a call answered entirely from other segment files must return exactly what it returned before; any message returned equals the published one in every field; no panic; bytes allocated per call bounded by 4 x file size + 1 MiB.",
   ref="DESIGN.md 3.3, 4/C14", note="Bounds: 6-9 messages of 40 bytes; damage to one file at a time; the allocation clause is a measurement (runtime/metrics) with a stated threshold inside the exhaustive loop. Trusted base: reference parser, tmpfs."),
 "C09": seq("BFS over the 'collide' alphabet whose key set contains three genuine FNV-1a-64 collisions between distinct 8-byte keys (re-verified against index.KeyHash at start), nil and empty keys and an absent key whose hash is present; at every state GetByKey/OffsetByKey for every key, a ConsumeByKey cursor per key and ConsumeByKey from every start offset, against the list model.", "DESIGN.md 4/C09"),
 "C10": seq("BFS over the 'times' alphabet (non-decreasing times with equal runs that straddle segment boundaries, deletes, reopen, Recover, index rebuild) plus the core/cfg/roll/inputs/helpers families; at every state GetByTime/OffsetByTime for every microsecond from min-2 to max+2 against the list model; ErrNoIndex without the index.", "DESIGN.md 4/C10"),
 "C11": seq("At every close point of the 'ixfiles' histories (publish, deletes incl. whole head, Recover, read-only round trip, index removal, Migrate; 4 index configs, V1/V2): every index file is compared item by item with the index an independent reference codec derives from its log file, and copies of the directory with each single index file / all (thorough: every subset) removed are opened read-write and read-only and must answer the full observation identically (differential fingerprints), including Stat right after Open.", "DESIGN.md 4/C11"),
 "C12": seq("BFS over the 'del' alphabet; at every state, as leaves: DD(S) (Delete twice) for every subset S of [0,Next+1], sets with relative offsets, DeleteMulti and DeleteMultiOffsets for every subset of the live offsets; every Delete pass is judged by the result-driven rule (returned subset of requested and live, byte-identical content, size = sum of storage sizes in the version of the segment the message was in), followed by a scan that must equal model minus returned.", "DESIGN.md 4/C12"),
 "C13": seq("Two exhaustive parts in one run. (1) codecx: every key length x value length in the tier's grid (thorough 0..300 squared) x 6 boundary times (min/max int64 us, -1, 0, 1, 1e15) x 4 base offsets x V1/V2, written back to back with the real message.Writer and index.Writer (4 layouts): reported positions, file bytes and Size() compared with an independent encoder of the documented layout, and the reference bytes read back through the file reader and the mmap reader. (2) seqx: Stat (handle and package level) against the model and os.Stat on every state of the core/cfg/roll/inputs families, and directory growth of every Publish against Log.Size.", "DESIGN.md 3.5, 4/C13", technique="exhaustive small-domain enumeration vs independent reference codec + explicit-state BFS for Stat"),
 "C15": seq("BFS over a times-style alphabet (holes, multi-segment, empty head, index rebuild); at every state FindByOffset/Count/Size/Age for every bound in covering sets (as observation), and as leaves every Trim* / Trim*Multi / Trim*MultiOffsets call for the same bounds: selected set must be a prefix of the live sequence, exactly that prefix is removed, and the bound-specific predicate holds afterwards.", "DESIGN.md 4/C15"),
 "C16": seq("BFS over the 'kv' alphabet (keys a, b, nil; values and tombstones; equal and increasing times; deletes; reopen) with up to two (thorough three) compaction letters per history: CompactUpdates/CompactDeletes in single, Multi and MultiOffsets form for every cut-off from min-1 to max+1, and Compact(age); key->latest-value map identical before/after, removed sets satisfy the property's membership predicates.", "DESIGN.md 4/C16"),
 "C17": seq("BFS over the 'versions' alphabet: publish, deletes, 8 reopen letters re-drawing NewSegmentsVersion x KeepRewriteVersion x EagerVersionMigrate, Migrate to V1/V2 once and twice, for 4 index configs starting from V1 and V2; full observation against the list model after every letter plus the version byte of every segment file (read by the harness) against what the options demand.", "DESIGN.md 4/C17"),
 "C20": seq("BFS over source states (any layout, holes, empty head, V1/V2) extended by up to three backups per history (new directory / same directory, Log.Backup / package-level Backup) with publish-only steps in between; after each backup the source files are byte-identical, Check(backup) and Open(Check) succeed and the opened backup's full observation transcript equals the source's.", "DESIGN.md 4/C20"),
}

not_applicable = []

def main():
    m = {
      "version": 1,
      "setup_cmd": "./check setup",
      "hooks": {
        "guard": "verif",
        "enable": "go build -tags verif -overlay <generated by bin/vgen from /repo's working tree> (import paths of os, sync, sync/atomic, time, crypto/rand, x/exp/mmap rewritten to shim packages under /verif/shim; no source change in /repo)",
        "baseline_off_cmd": "cd /repo && go test -vet=off -count=1 ./...",
        "source_commits": [],
        "add_only": True,
      },
      "engines": [
        {"name": "seqx", "path": "h/seqx", "serves_properties": [k for k,v in checks.items() if v["engine"]=="seqx"], "kind_free_text": "explicit-state BFS over API histories, real code vs list model, replay-from-scratch successors, canonical state keys"},
        {"name": "crashx", "path": "h/crashx", "serves_properties": ["C05", "C06"], "kind_free_text": "explicit-state BFS over API histories on the real code; per transition, exhaustive enumeration of crash / torn-write / tail-loss images computed from the file-system journal, each recovered on the real code"},
        {"name": "dmgx", "path": "h/dmgx", "serves_properties": [k for k,v in checks.items() if v["engine"]=="dmgx"], "kind_free_text": "exhaustive enumeration of byte damage (truncation, bit flips, overwrites, tails, index damage) on segments written by the real code, judged by an independent reference parser"},
        {"name": "codecx", "path": "h/codecx", "serves_properties": ["C13"], "kind_free_text": "exhaustive small-domain round trips of record and index formats vs independent reference codec"},
      ],
      "checks": [],
      "notes": "All checks run ./check <ID> <tier>, which regenerates the overlay from /repo's current working tree, rebuilds the harness and explores. Evidence is rewritten by every run.",
      "not_applicable": not_applicable,
    }
    for pid in sorted(checks):
        c = checks[pid]
        m["checks"].append({
          "property_id": pid,
          "quick_cmd": f"./check {pid} quick",
          "thorough_cmd": f"./check {pid} thorough",
          "evidence_file": f"/verif/evidence/{pid}.json",
          "replay_cmd_template": "./check replay {path}",
          "engine": c["engine"],
          "level_claimed": {"category": c["cat"], "text": c["text"], "design_ref": c["ref"]},
          "level_note": c["note"],
          "technique": c["technique"],
        })
    json.dump(m, open(os.path.join(here, "MANIFEST.json"), "w"), indent=1)
    print("wrote MANIFEST.json with", len(m["checks"]), "checks")

main()
