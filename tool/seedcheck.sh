#!/bin/bash
# tool/seedcheck.sh <seed dir with patch.diff + demo_test.go> <property id> [more property ids...]
# Confirms a seeded change in a scratch worktree of /repo's HEAD (applies, suite passes, demo fails
# with it and passes without it) and then runs the given checks against the changed tree.
# Prints a one-line verdict per step; leaves nothing behind.
set -u
seed="$1"; shift
props="$@"
export GOFLAGS=-mod=mod GOPROXY=off
wt=/tmp/seedchk.$$
git -C /repo worktree add -q --detach "$wt" HEAD || exit 2
trap 'git -C /repo worktree remove --force "$wt" >/dev/null 2>&1' EXIT
cd "$wt"
if ! git apply "$seed/patch.diff" 2>/tmp/seedchk.$$.err; then
  if ! git apply --3way "$seed/patch.diff" 2>>/tmp/seedchk.$$.err; then
    echo "APPLY: FAILED ($(head -2 /tmp/seedchk.$$.err | tr '\n' ' '))"; rm -f /tmp/seedchk.$$.err; exit 3
  fi
fi
rm -f /tmp/seedchk.$$.err
echo "APPLY: ok ($(git diff HEAD --stat | tail -1))"
suite_ok=0; note=""
# SEED_FAST=1: only apply the change and run the checks (suite and demonstrations were confirmed when the seed was stored)
[ -n "${SEED_FAST:-}" ] && suite_ok=skip
for attempt in 1 2 3 4; do
  [ "$suite_ok" = skip ] && break
  if go build ./... >/dev/null 2>&1 && go test -vet=off -count=1 ./... >/tmp/seedchk.$$.suite 2>&1; then suite_ok=1; break; fi
  # TestConcurrent/DeleteRollover and /Delete are flaky on the unchanged tree too (they delete the same offset twice when the publisher is slow): retry those only
  others=$(grep -- "--- FAIL" /tmp/seedchk.$$.suite | grep -v "TestConcurrent (\|TestConcurrent/DeleteRollover\|TestConcurrent/Delete " | head -1)
  [ -n "$others" ] && break
  note=" (after retrying the flaky TestConcurrent/Delete* $attempt x)"
done
if [ $suite_ok = skip ]; then echo "SUITE with change: SKIPPED"; elif [ $suite_ok = 1 ]; then echo "SUITE with change: PASS$note"; else echo "SUITE with change: FAIL"; grep -m3 -- "--- FAIL\|FAIL" /tmp/seedchk.$$.suite; fi
rm -f /tmp/seedchk.$$.suite
demos=$(ls "$seed"/*_test.go 2>/dev/null)
for d in $demos; do cp "$d" "$wt/zz_seed_$(basename $d)"; done
pkgline=$(head -20 $demos | grep -m1 '^package ')
if [ -n "${SEED_FAST:-}" ]; then echo "DEMO with change: SKIPPED"; elif go test -vet=off -count=1 -run 'Demo|Seed|C[0-9][0-9]' . >/tmp/seedchk.$$.demo 2>&1; then echo "DEMO with change: PASS (unexpected)"; else echo "DEMO with change: FAIL (expected) $(grep -m1 -- '--- FAIL' /tmp/seedchk.$$.demo)"; fi
# run the checks against the changed tree (demo file removed first: it is a _test file and would be ignored anyway)
rm -f "$wt"/zz_seed_*
for p in $props; do
  out=$(VERIF_REPO="$wt" VERIF_OUT=/dev/shm/seedout /verif/check $p quick 2>/tmp/seedchk.$$.cerr); rc=$?
  nv=$(echo "$out" | grep -c '^VIOLATION')
  echo "CHECK $p: rc=$rc violations=$nv $(echo "$out" | grep -A1 -m1 '^VIOLATION' | tail -1 | cut -c1-260)"
  [ $rc -eq 2 ] && tail -3 /tmp/seedchk.$$.cerr
done
rm -f /tmp/seedchk.$$.cerr
git reset -q --hard HEAD; git clean -fdq
for d in $demos; do cp "$d" "$wt/zz_seed_$(basename $d)"; done
if [ -n "${SEED_FAST:-}" ]; then echo "DEMO without change: SKIPPED"; elif go test -vet=off -count=1 -run 'Demo|Seed|C[0-9][0-9]' . >/tmp/seedchk.$$.demo 2>&1; then echo "DEMO without change: PASS (expected)"; else echo "DEMO without change: FAIL (unexpected) $(grep -m1 -- '--- FAIL' /tmp/seedchk.$$.demo)"; fi
rm -f /tmp/seedchk.$$.demo
