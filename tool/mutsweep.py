#!/usr/bin/env python3
"""Gap finder (NOT a check, and deliberately a sample): small syntactic changes to klevdb's
source, one at a time, in a scratch worktree of /repo's HEAD. A change that still builds and
still passes the repository's own suite is then shown to the quick checks that cover the file
it touches; changes that no check reports are listed as survivors for a human to classify
(equivalent change, change outside every property, or a hole in a check).

usage: tool/mutsweep.py <n> [seed] [file-substring]      results: /dev/shm/mutsweep/results.tsv
"""
import os, random, re, subprocess, sys, json, time

REPO = "/repo"
WT = "/tmp/mutsweep.wt"
OUT = "/dev/shm/mutsweep"
ENV = dict(os.environ, GOFLAGS="-mod=mod", GOPROXY="off")

FILES = {
    "log.go": ["C01", "C04", "C10", "C12", "C02", "C03"],
    "log_writer.go": ["C01", "C02", "C12", "C13", "C10"],
    "log_reader.go": ["C03", "C04", "C09", "C10", "C12", "C19"],
    "log_blocking.go": ["C18"],
    "pkg/notify/notify.go": ["C18"],
    "delete.go": ["C12", "C15"],
    "trim_age.go": ["C15"], "trim_count.go": ["C15"], "trim_offset.go": ["C15"], "trim_size.go": ["C15"],
    "compact.go": ["C16"], "compact_deletes.go": ["C16"], "compact_updates.go": ["C16"],
    "pkg/index/format.go": ["C13", "C11", "C07", "C09", "C10"],
    "pkg/index/keys.go": ["C09"], "pkg/index/offset.go": ["C03", "C04", "C01"], "pkg/index/times.go": ["C10"],
    "pkg/index/index.go": ["C11", "C13"],
    "pkg/message/format.go": ["C13", "C14", "C07", "C01"],
    "pkg/message/message.go": ["C13", "C12"],
    "pkg/segment/segment.go": ["C05", "C07", "C11", "C12", "C17", "C20"],
    "pkg/segment/segments.go": ["C17", "C20", "C07", "C13"],
    "pkg/segment/index.go": ["C11", "C13", "C05"],
    "pkg/segment/utils.go": ["C20", "C05"],
    "pkg/kdir/sync.go": ["C06", "C05"],
    "api.go": ["C01", "C19", "C17"],
}
ALL = ["C%02d" % i for i in range(1, 21)]

SWAPS = [
    (r" == ", " != "), (r" != ", " == "), (r" < ", " <= "), (r" <= ", " < "), (r" > ", " >= "), (r" >= ", " > "),
    (r" && ", " || "), (r" \|\| ", " && "), (r"\+ 1\b", "+ 0"), (r"- 1\b", "- 0"), (r"\+ int64\(1\)", "+ int64(0)"),
    (r"\btrue\b", "false"), (r"\bfalse\b", "true"), (r"\+= ", "-= "), (r"\[0\]", "[1]"),
]


def sh(cmd, cwd=None, timeout=1800):
    p = subprocess.run(cmd, shell=True, cwd=cwd, env=ENV, stdout=subprocess.PIPE, stderr=subprocess.STDOUT, timeout=timeout)
    return p.returncode, p.stdout.decode(errors="replace")


def candidates(only):
    out = []
    for f in FILES:
        if only and only not in f:
            continue
        lines = open(os.path.join(REPO, f)).read().split("\n")
        infunc = False
        for i, l in enumerate(lines):
            if l.startswith("func "):
                infunc = True
            if not infunc or l.strip().startswith("//") or "fmt.Errorf" in l or l.strip().startswith("case ") and '"' in l:
                continue
            for k, (a, b) in enumerate(SWAPS):
                for m in re.finditer(a, l):
                    out.append((f, i, m.start(), m.end(), b, "swap%d" % k))
            s = l.strip()
            # drop a whole simple statement (call or assignment), not declarations / control flow
            if re.match(r"^[a-zA-Z_][\w\.\[\]]*(\(.*\)|\s*(=|\+=|-=)\s.*)$", s) and not s.startswith(("return", "defer", "go ", "if ", "for ", "switch ", "case ", "func ")) and ":=" not in s:
                out.append((f, i, None, None, None, "drop"))
            # error ignored: "if err != nil {" followed by a return -> condition made false
            # (ignored I/O errors are not generated: without fault injection they change nothing observable)
    return out


def apply(c):
    f, i, a, b, rep, kind = c
    p = os.path.join(WT, f)
    lines = open(p).read().split("\n")
    old = lines[i]
    if kind == "drop":
        ind = old[: len(old) - len(old.lstrip())]
        lines[i] = ind + "_ = 0 // dropped: " + old.strip()
        # keep it compiling without "declared and not used": a blank assignment is always fine
        lines[i] = ind + "// dropped: " + old.strip()
    elif kind == "ignoreerr":
        lines[i] = old.replace("err != nil", "err != nil && false", 1)
    else:
        lines[i] = old[:a] + rep + old[b:]
    open(p, "w").write("\n".join(lines))
    return old.strip(), lines[i].strip()


def main():
    n = int(sys.argv[1])
    seed = int(sys.argv[2]) if len(sys.argv) > 2 else 1
    only = sys.argv[3] if len(sys.argv) > 3 else ""
    os.makedirs(OUT, exist_ok=True)
    sh("git -C %s worktree remove --force %s; git -C %s worktree prune; git -C %s worktree add -q --detach %s HEAD" % (REPO, WT, REPO, REPO, WT))
    cs = candidates(only)
    random.Random(seed).shuffle(cs)
    res = open(os.path.join(OUT, "results.tsv"), "a")
    done = 0
    for c in cs:
        if done >= n:
            break
        sh("git checkout -q -- . && git clean -fdq", cwd=WT)
        old, new = apply(c)
        tag = "%s:%d %s" % (c[0], c[1] + 1, c[5])
        rc, o = sh("go build ./... && go vet ./... 2>/dev/null; go build ./...", cwd=WT, timeout=300)
        if rc != 0:
            continue
        ok = False
        for attempt in range(3):
            rc, o = sh("go test -vet=off -count=1 ./...", cwd=WT, timeout=900)
            if rc == 0:
                ok = True
                break
            fails = [l for l in o.split("\n") if "--- FAIL" in l]
            if any(("TestConcurrent/Delete" not in l and "TestConcurrent (" not in l) for l in fails) or not fails:
                break
        if not ok:
            res.write("%s\tKILLED-BY-SUITE\t\t%s\t=>\t%s\n" % (tag, old, new)); res.flush()
            continue
        done += 1
        detected = ""
        # the checks mapped to the file first, then a core set; MUT_ALL=1: every check
        order = FILES[c[0]] + [p for p in ("C01", "C05", "C12", "C03", "C11") if p not in FILES[c[0]]]
        if os.environ.get("MUT_ALL"):
            order += [p for p in ALL if p not in order]
        t0 = time.time()
        for prop in order:
            rc, o = sh("VERIF_REPO=%s VERIF_OUT=%s/out /verif/check %s quick" % (WT, OUT, prop), timeout=3600)
            if rc == 1 and "VIOLATION" in o:
                detected = prop
                break
            if rc == 2:
                detected = prop + "(harness-error)"
                break
        res.write("%s\t%s\t%ds\t%s\t=>\t%s\n" % (tag, detected or "SURVIVED", time.time() - t0, old, new)); res.flush()
    sh("git -C %s worktree remove --force %s; git -C %s worktree prune" % (REPO, WT, REPO))


if __name__ == "__main__":
    main()
