package main

import (
	"bytes"
	"fmt"
	"go/ast"
	"go/format"
	"go/parser"
	"go/token"
	"reflect"
	"strconv"
)

const vchanPath = shimBase + "vchan"

// rewriteChans turns the channel constructs of a file into scheduler-visible
// ones (see /verif/shim/vchan). It fails on anything it does not support; the
// caller then leaves the file as it is.
func rewriteChans(src []byte) ([]byte, error) {
	fset := token.NewFileSet()
	f, err := parser.ParseFile(fset, "notify.go", src, parser.ParseComments)
	if err != nil {
		return nil, err
	}
	rw := &chanRewriter{}
	for i, d := range f.Decls {
		f.Decls[i] = rw.node(d).(ast.Decl)
	}
	if rw.err != nil {
		return nil, rw.err
	}
	if !rw.changed {
		return src, nil
	}
	// add the import
	imp := &ast.ImportSpec{Path: &ast.BasicLit{Kind: token.STRING, Value: strconv.Quote(vchanPath)}}
	added := false
	for _, d := range f.Decls {
		if gd, ok := d.(*ast.GenDecl); ok && gd.Tok == token.IMPORT {
			gd.Specs = append(gd.Specs, imp)
			if !gd.Lparen.IsValid() {
				gd.Lparen = gd.Pos()
				gd.Rparen = gd.End()
			}
			added = true
			break
		}
	}
	if !added {
		f.Decls = append([]ast.Decl{&ast.GenDecl{Tok: token.IMPORT, Specs: []ast.Spec{imp}}}, f.Decls...)
	}
	f.Imports = append(f.Imports, imp)
	f.Comments = nil // positions no longer match; comments are irrelevant to the build
	var buf bytes.Buffer
	if err := format.Node(&buf, fset, f); err != nil {
		return nil, err
	}
	return buf.Bytes(), nil
}

type chanRewriter struct {
	err     error
	changed bool
}

func (r *chanRewriter) fail(format string, a ...any) {
	if r.err == nil {
		r.err = fmt.Errorf(format, a...)
	}
}

func sel(x ast.Expr, name string) *ast.SelectorExpr {
	return &ast.SelectorExpr{X: x, Sel: ast.NewIdent(name)}
}

func vchanSel(name string) *ast.SelectorExpr { return sel(ast.NewIdent("vchan"), name) }

var (
	exprType = reflect.TypeOf((*ast.Expr)(nil)).Elem()
	stmtType = reflect.TypeOf((*ast.Stmt)(nil)).Elem()
	nodeType = reflect.TypeOf((*ast.Node)(nil)).Elem()
)

// node rewrites n bottom-up and returns its replacement.
func (r *chanRewriter) node(n ast.Node) ast.Node {
	if n == nil || reflect.ValueOf(n).IsNil() {
		return n
	}
	// select statements are converted as a whole before their parts are visited
	if s, ok := n.(*ast.SelectStmt); ok {
		return r.selectStmt(s)
	}
	// v, ok := <-c must be seen before the unary receive inside it is rewritten
	if as, ok := n.(*ast.AssignStmt); ok && len(as.Lhs) == 2 && len(as.Rhs) == 1 {
		if u, ok := as.Rhs[0].(*ast.UnaryExpr); ok && u.Op == token.ARROW {
			r.changed = true
			x := r.node(u.X).(ast.Expr)
			for i := range as.Lhs {
				as.Lhs[i] = r.node(as.Lhs[i]).(ast.Expr)
			}
			as.Rhs[0] = &ast.CallExpr{Fun: sel(x, "Recv2")}
			return as
		}
	}
	v := reflect.ValueOf(n).Elem()
	for i := 0; i < v.NumField(); i++ {
		fld := v.Field(i)
		switch fld.Kind() {
		case reflect.Interface, reflect.Ptr:
			if fld.IsNil() || !fld.CanInterface() {
				continue
			}
			if c, ok := fld.Interface().(ast.Node); ok {
				if _, isObj := fld.Interface().(*ast.Object); isObj {
					continue
				}
				nn := r.node(c)
				if nn != c {
					fld.Set(reflect.ValueOf(nn))
				}
			}
		case reflect.Slice:
			for j := 0; j < fld.Len(); j++ {
				e := fld.Index(j)
				if (e.Kind() == reflect.Interface || e.Kind() == reflect.Ptr) && !e.IsNil() {
					if c, ok := e.Interface().(ast.Node); ok {
						nn := r.node(c)
						if nn != c {
							e.Set(reflect.ValueOf(nn))
						}
					}
				}
			}
		}
	}
	switch x := n.(type) {
	case *ast.ChanType:
		r.changed = true
		if x.Dir != ast.SEND|ast.RECV {
			r.fail("directional channel types are not supported")
		}
		return &ast.StarExpr{X: &ast.IndexExpr{X: vchanSel("Chan"), Index: x.Value}}
	case *ast.CallExpr:
		if id, ok := x.Fun.(*ast.Ident); ok && id.Name == "make" && len(x.Args) >= 1 {
			// the channel type argument has already been rewritten to *vchan.Chan[T]
			if st, ok := x.Args[0].(*ast.StarExpr); ok {
				if ix, ok := st.X.(*ast.IndexExpr); ok {
					if se, ok := ix.X.(*ast.SelectorExpr); ok && se.Sel.Name == "Chan" {
						var n ast.Expr = &ast.BasicLit{Kind: token.INT, Value: "0"}
						if len(x.Args) > 1 {
							n = x.Args[1]
						}
						return &ast.CallExpr{Fun: &ast.IndexExpr{X: vchanSel("Make"), Index: ix.Index}, Args: []ast.Expr{n}}
					}
				}
			}
		}
		if id, ok := x.Fun.(*ast.Ident); ok && id.Name == "close" && len(x.Args) == 1 {
			r.changed = true
			return &ast.CallExpr{Fun: sel(x.Args[0], "Close")}
		}
	case *ast.SendStmt:
		r.changed = true
		return &ast.ExprStmt{X: &ast.CallExpr{Fun: sel(x.Chan, "Send"), Args: []ast.Expr{x.Value}}}
	case *ast.UnaryExpr:
		if x.Op == token.ARROW {
			r.changed = true
			return &ast.CallExpr{Fun: sel(x.X, "Recv")}
		}
	case *ast.RangeStmt:
		// ranging over a channel cannot be told apart syntactically; notify does not do it
	}
	return n
}

func (r *chanRewriter) selectStmt(s *ast.SelectStmt) ast.Node {
	r.changed = true
	var args []ast.Expr
	var pre []ast.Stmt
	sw := &ast.SwitchStmt{Body: &ast.BlockStmt{}}
	hasDefault := false
	ci := 0
	for _, c := range s.Body.List {
		cc := c.(*ast.CommClause)
		body := make([]ast.Stmt, 0, len(cc.Body)+1)
		if cc.Comm == nil {
			// default clause: the select never waits, index -1
			hasDefault = true
			for _, st := range cc.Body {
				body = append(body, r.node(st).(ast.Stmt))
			}
			sw.Body.List = append(sw.Body.List, &ast.CaseClause{List: []ast.Expr{&ast.UnaryExpr{Op: token.SUB, X: &ast.BasicLit{Kind: token.INT, Value: "1"}}}, Body: body})
			continue
		}
		var recv *ast.UnaryExpr
		var assign *ast.AssignStmt
		switch st := cc.Comm.(type) {
		case *ast.ExprStmt:
			recv, _ = st.X.(*ast.UnaryExpr)
		case *ast.AssignStmt:
			if len(st.Rhs) == 1 && (len(st.Lhs) == 1 || len(st.Lhs) == 2) {
				recv, _ = st.Rhs[0].(*ast.UnaryExpr)
				assign = st
			}
		default:
			r.fail("select case with a send is not supported")
			return s
		}
		if recv == nil || recv.Op != token.ARROW {
			r.fail("unsupported select case")
			return s
		}
		ch := r.node(recv.X).(ast.Expr)
		isReal := false
		if call, ok := ch.(*ast.CallExpr); ok {
			if se, ok := call.Fun.(*ast.SelectorExpr); ok && se.Sel.Name == "Done" {
				isReal = true
			}
		}
		switch {
		case assign == nil && isReal:
			args = append(args, &ast.CallExpr{Fun: vchanSel("Real"), Args: []ast.Expr{ch}})
		case assign == nil:
			args = append(args, &ast.CallExpr{Fun: vchanSel("RecvOf"), Args: []ast.Expr{ch}})
		case isReal:
			r.fail("select case that assigns from a Done channel is not supported")
			return s
		default:
			// case v, ok = <-c  ->  slot := vchan.SlotOf(c) before the select, v, ok = slot.V, slot.Ok in the case
			slot := ast.NewIdent("vchanSlot" + strconv.Itoa(ci))
			pre = append(pre, &ast.AssignStmt{Lhs: []ast.Expr{slot}, Tok: token.DEFINE, Rhs: []ast.Expr{&ast.CallExpr{Fun: vchanSel("SlotOf"), Args: []ast.Expr{ch}}}})
			args = append(args, &ast.CallExpr{Fun: &ast.SelectorExpr{X: slot, Sel: ast.NewIdent("Case")}})
			rhs := []ast.Expr{&ast.SelectorExpr{X: slot, Sel: ast.NewIdent("V")}}
			if len(assign.Lhs) == 2 {
				rhs = append(rhs, &ast.SelectorExpr{X: slot, Sel: ast.NewIdent("Ok")})
			}
			lhs := make([]ast.Expr, len(assign.Lhs))
			for j, l := range assign.Lhs {
				lhs[j] = r.node(l).(ast.Expr)
			}
			body = append(body, &ast.AssignStmt{Lhs: lhs, Tok: assign.Tok, Rhs: rhs})
		}
		for _, st := range cc.Body {
			body = append(body, r.node(st).(ast.Stmt))
		}
		sw.Body.List = append(sw.Body.List, &ast.CaseClause{List: []ast.Expr{&ast.BasicLit{Kind: token.INT, Value: strconv.Itoa(ci)}}, Body: body})
		ci++
	}
	fn := "Select"
	if hasDefault {
		fn = "SelectDefault"
	}
	sw.Tag = &ast.CallExpr{Fun: vchanSel(fn), Args: args}
	// "default: panic" makes the switch a terminating statement exactly when every clause of the
	// select ended in one, as the select itself was
	sw.Body.List = append(sw.Body.List, &ast.CaseClause{Body: []ast.Stmt{&ast.ExprStmt{X: &ast.CallExpr{Fun: ast.NewIdent("panic"), Args: []ast.Expr{&ast.BasicLit{Kind: token.STRING, Value: `"vchan: select returned no case"`}}}}}})
	if len(pre) == 0 {
		return sw
	}
	return &ast.BlockStmt{List: append(pre, sw)}
}
