package main

import "errors"

// rewriteChans is replaced by the real rewriter in chanrw.go once C18 is built.
var rewriteChans = func(src []byte) ([]byte, error) { return nil, errors.New("channel rewriter not built") }
