// vgen builds the go-build overlay that puts klevdb's environment under the
// harness's control without touching /repo: it rewrites the import paths of
// os, sync, sync/atomic, time, crypto/rand and x/exp/mmap in every non-test
// file of the repository's current working tree to virtual shim packages
// inside the klevdb module (pkg/vshim/*), maps the shim sources from
// /verif/shim into that place, optionally turns the channel constructs of
// pkg/notify into scheduler-visible ones and adds a state dump file to the
// root package. The line numbers of every rewritten file are preserved.
package main

import (
	"bytes"
	"encoding/json"
	"flag"
	"fmt"
	"go/ast"
	"go/importer"
	"go/parser"
	"go/token"
	"go/types"
	"os"
	"path/filepath"
	"sort"
	"strconv"
	"strings"
)

const shimBase = "github.com/klev-dev/klevdb/pkg/vshim/"

// import path -> shim package name
var shimOf = map[string]string{
	"os":                    "vos",
	"sync":                  "vsync",
	"sync/atomic":           "vatomic",
	"time":                  "vtime",
	"crypto/rand":           "vrand",
	"golang.org/x/exp/mmap": "vmmap",
}

var defaultName = map[string]string{
	"os": "os", "sync": "sync", "sync/atomic": "atomic", "time": "time",
	"crypto/rand": "rand", "golang.org/x/exp/mmap": "mmap",
}

type multi []string

func (m *multi) String() string     { return strings.Join(*m, ",") }
func (m *multi) Set(s string) error { *m = append(*m, s); return nil }

func main() {
	repo := flag.String("repo", "/repo", "repository root")
	shim := flag.String("shim", "/verif/shim", "shim sources")
	out := flag.String("out", "", "scratch output directory")
	keyRoot := flag.String("keyroot", "", "root the overlay keys refer to (default: -repo); set when -repo is a scratch copy of the tree that the harness module replaces at keyroot")
	doChan := flag.Bool("chan", true, "rewrite channel constructs of pkg/notify")
	doDump := flag.Bool("dump", true, "add the state dump file to package klevdb")
	var repl multi
	flag.Var(&repl, "replace", "rel/path.go=/abs/replacement.go (a changed copy of a repository file, used for self-tests)")
	flag.Parse()
	if *out == "" {
		fatal("missing -out")
	}
	if *keyRoot == "" {
		*keyRoot = *repo
	}
	key := func(p string) string {
		rel, err := filepath.Rel(*repo, p)
		if err != nil {
			return p
		}
		return filepath.Join(*keyRoot, rel)
	}
	must(os.MkdirAll(filepath.Join(*out, "src"), 0o755))

	replaced := map[string]string{}
	for _, r := range repl {
		k, v, ok := strings.Cut(r, "=")
		if !ok {
			fatal("bad -replace " + r)
		}
		replaced[filepath.Clean(k)] = v
	}

	overlay := map[string]string{}
	used := map[string]map[string]bool{} // import path -> identifiers used
	fset := token.NewFileSet()

	var files []string
	must(filepath.Walk(*repo, func(p string, info os.FileInfo, err error) error {
		if err != nil {
			return err
		}
		if info.IsDir() {
			n := info.Name()
			if p != *repo && (strings.HasPrefix(n, ".") || n == "testdata" || n == "vendor") {
				return filepath.SkipDir
			}
			if p != *repo {
				if _, err := os.Stat(filepath.Join(p, "go.mod")); err == nil {
					return filepath.SkipDir
				}
			}
			return nil
		}
		if strings.HasSuffix(p, ".go") && !strings.HasSuffix(p, "_test.go") {
			files = append(files, p)
		}
		return nil
	}))
	// replacement files that add new paths
	for rel := range replaced {
		p := filepath.Join(*repo, rel)
		found := false
		for _, f := range files {
			if f == p {
				found = true
			}
		}
		if !found {
			files = append(files, p)
		}
	}
	sort.Strings(files)

	for _, p := range files {
		rel, _ := filepath.Rel(*repo, p)
		srcPath := p
		if r, ok := replaced[rel]; ok {
			srcPath = r
		}
		src, err := os.ReadFile(srcPath)
		must(err)
		if rel == filepath.Join("pkg", "notify", "notify.go") && *doChan {
			if nsrc, err := rewriteChans(src); err == nil {
				src = nsrc
			} else {
				fmt.Fprintf(os.Stderr, "vgen: channel rewrite of %s failed: %v (left as is)\n", rel, err)
				// the blocking-consume check must not run on channels the scheduler cannot see
				_ = os.MkdirAll(*out, 0o755)
				_ = os.WriteFile(filepath.Join(*out, "chan_rewrite_failed"), []byte(err.Error()), 0o644)
			}
		}
		f, err := parser.ParseFile(fset, p, src, parser.ParseComments)
		if err != nil {
			// leave the file alone: the build will report the error
			if srcPath != p || *keyRoot != *repo {
				overlay[key(p)] = srcPath
			}
			continue
		}
		// local name -> import path for shimmed imports
		local := map[string]string{}
		type edit struct {
			from, to int
			text     string
		}
		var edits []edit
		for _, is := range f.Imports {
			ipath, _ := strconv.Unquote(is.Path.Value)
			sh, ok := shimOf[ipath]
			if !ok {
				continue
			}
			name := defaultName[ipath]
			if is.Name != nil {
				name = is.Name.Name
			}
			if name == "_" || name == "." {
				continue
			}
			local[name] = ipath
			edits = append(edits, edit{
				from: fset.Position(is.Pos()).Offset,
				to:   fset.Position(is.End()).Offset,
				text: name + " " + strconv.Quote(shimBase+sh),
			})
		}
		if len(local) > 0 {
			ast.Inspect(f, func(n ast.Node) bool {
				se, ok := n.(*ast.SelectorExpr)
				if !ok {
					return true
				}
				id, ok := se.X.(*ast.Ident)
				if !ok || id.Obj != nil {
					return true
				}
				if ipath, ok := local[id.Name]; ok {
					if used[ipath] == nil {
						used[ipath] = map[string]bool{}
					}
					used[ipath][se.Sel.Name] = true
				}
				return true
			})
		}
		if len(edits) == 0 && srcPath == p && *keyRoot == *repo && !bytes.Contains(src, []byte("vshim/vchan")) {
			continue
		}
		sort.Slice(edits, func(i, j int) bool { return edits[i].from > edits[j].from })
		for _, e := range edits {
			src = append(src[:e.from:e.from], append([]byte(e.text), src[e.to:]...)...)
		}
		dst := filepath.Join(*out, "src", rel)
		must(os.MkdirAll(filepath.Dir(dst), 0o755))
		must(os.WriteFile(dst, src, 0o644))
		overlay[key(p)] = dst
	}

	// shim packages: hand-written sources + generated pass-throughs
	shimDirs, err := os.ReadDir(*shim)
	must(err)
	pathOf := map[string]string{}
	for ip, sh := range shimOf {
		pathOf[sh] = ip
	}
	for _, d := range shimDirs {
		if !d.IsDir() || d.Name() == "dump" {
			continue
		}
		sh := d.Name()
		srcs, _ := filepath.Glob(filepath.Join(*shim, sh, "*.go"))
		defined := map[string]bool{}
		for _, s := range srcs {
			overlay[filepath.Join(*keyRoot, "pkg", "vshim", sh, filepath.Base(s))] = s
			f, err := parser.ParseFile(fset, s, nil, 0)
			must(err)
			for _, decl := range f.Decls {
				switch d := decl.(type) {
				case *ast.FuncDecl:
					if d.Recv == nil {
						defined[d.Name.Name] = true
					}
				case *ast.GenDecl:
					for _, sp := range d.Specs {
						switch sp := sp.(type) {
						case *ast.TypeSpec:
							defined[sp.Name.Name] = true
						case *ast.ValueSpec:
							for _, n := range sp.Names {
								defined[n.Name] = true
							}
						}
					}
				}
			}
		}
		ip, ok := pathOf[sh]
		if !ok {
			continue
		}
		var missing []string
		for id := range used[ip] {
			if !defined[id] {
				missing = append(missing, id)
			}
		}
		if len(missing) == 0 {
			continue
		}
		sort.Strings(missing)
		gen := passThrough(sh, ip, missing)
		dst := filepath.Join(*out, "shimgen", sh, "zz_passthrough.go")
		must(os.MkdirAll(filepath.Dir(dst), 0o755))
		must(os.WriteFile(dst, gen, 0o644))
		overlay[filepath.Join(*keyRoot, "pkg", "vshim", sh, "zz_passthrough.go")] = dst
	}

	if *doDump {
		dump := filepath.Join(*shim, "dump", "zz_verif_dump.go")
		if _, err := os.Stat(dump); err == nil {
			overlay[filepath.Join(*keyRoot, "zz_verif_dump.go")] = dump
		}
	}

	js, _ := json.MarshalIndent(map[string]any{"Replace": overlay}, "", " ")
	must(os.WriteFile(filepath.Join(*out, "overlay.json"), js, 0o644))
	fmt.Printf("vgen: %d files in overlay\n", len(overlay))
}

func passThrough(sh, ip string, ids []string) []byte {
	var b bytes.Buffer
	fmt.Fprintf(&b, "// Code generated by vgen. DO NOT EDIT.\n\npackage %s\n\nimport real %q\n\n", sh, ip)
	imp := importer.ForCompiler(token.NewFileSet(), "source", nil)
	pkg, err := imp.Import(ip)
	for _, id := range ids {
		var obj types.Object
		if err == nil {
			obj = pkg.Scope().Lookup(id)
		}
		switch o := obj.(type) {
		case *types.TypeName:
			if named, ok := o.Type().(*types.Named); ok && named.TypeParams().Len() > 0 {
				var ps, as []string
				for i := 0; i < named.TypeParams().Len(); i++ {
					tp := named.TypeParams().At(i)
					ps = append(ps, fmt.Sprintf("%s %s", tp.Obj().Name(), types.TypeString(tp.Constraint(), func(p *types.Package) string { return "real" })))
					as = append(as, tp.Obj().Name())
				}
				fmt.Fprintf(&b, "type %s[%s] = real.%s[%s]\n", id, strings.Join(ps, ", "), id, strings.Join(as, ", "))
			} else {
				fmt.Fprintf(&b, "type %s = real.%s\n", id, id)
			}
		case *types.Const:
			fmt.Fprintf(&b, "const %s = real.%s\n", id, id)
		case *types.Func, *types.Var:
			fmt.Fprintf(&b, "var %s = real.%s\n", id, id)
		default:
			// unknown: let the compiler complain with a clear name
			fmt.Fprintf(&b, "var %s = real.%s\n", id, id)
		}
	}
	return b.Bytes()
}

func must(err error) {
	if err != nil {
		fatal(err.Error())
	}
}

func fatal(s string) {
	fmt.Fprintln(os.Stderr, "vgen:", s)
	os.Exit(2)
}
