module verif/vgen

go 1.25.0

toolchain go1.26.1
